//! C08 — reset events are linearizable; no signal lost, duplicated or delivered to two.
//!
//! Section `schedules`: 2..3 tasks issue set / reset / try_wait / poll-wait / re-poll / drop-wait
//! against one thread-safe event under generated schedule bytes (vsched over the sync shim of
//! `events` and `awaiter_set`); every call is logged with invocation / response stamps and the
//! history (plus the quiescent observations of the harness) must have a linearization under the
//! sequential specification in `p_events::step`. Waiters the final state says are released must
//! have had their latest waker invoked.

use std::future::Future;
use std::pin::Pin;
use std::sync::atomic::{AtomicU64, Ordering};
use std::sync::{Arc, Mutex};
use std::task::{Context, Poll};

use events::{AutoResetEvent, EmbeddedAutoResetEvent, EmbeddedAutoResetEventRef, EmbeddedManualResetEvent, EmbeddedManualResetEventRef, ManualResetEvent};
use p_events::{Op, OpKind, linearize_manual_two_point, linearize_with, real_time_order};
use p_events_once::{Ledger, waker};
use proptest::prelude::*;
use serde::{Deserialize, Serialize};
use vcommon::{Ctx, Failure, Harness, Verdict};

#[derive(Debug, Clone, Copy, Serialize, Deserialize, PartialEq, Eq)]
enum TOp {
    Set,
    Reset,
    TryWait,
    /// poll wait future in `slot` (created on demand) with root waker `w`
    Poll {
        slot: u8,
        w: u8,
    },
    DropWait {
        slot: u8,
    },
    Yield,
}

#[derive(Debug, Clone, Serialize, Deserialize)]
struct Case {
    /// 0 auto boxed, 1 auto embedded, 2 manual boxed, 3 manual embedded
    kind: u8,
    tasks: Vec<Vec<TOp>>,
    /// allow loads to be served an older store that coherence permits; the history is then
    /// ordered by happens-before between calls instead of by real time
    stale: bool,
    schedule: Vec<u8>,
}

fn case_strategy() -> impl Strategy<Value = Case> {
    let op = prop_oneof![
        4 => Just(TOp::Set),
        2 => Just(TOp::Reset),
        2 => Just(TOp::TryWait),
        6 => (0u8..2, 0u8..2).prop_map(|(slot, w)| TOp::Poll { slot, w }),
        2 => (0u8..2).prop_map(|slot| TOp::DropWait { slot }),
        1 => Just(TOp::Yield),
    ];
    let sched_byte = prop_oneof![5 => Just(0u8), 3 => 128u8..=255, 1 => 1u8..128];
    (0u8..4, prop::collection::vec(prop::collection::vec(op, 1..5), 2..4), prop::bool::weighted(0.3), prop::collection::vec(sched_byte, 0..60)).prop_map(|(kind, tasks, stale, schedule)| Case { kind, tasks, stale, schedule })
}

const KIND: [&str; 4] = ["auto-boxed", "auto-embedded", "manual-boxed", "manual-embedded"];

trait Ev: Clone + Send + 'static {
    type Wait: Future<Output = ()> + Send + 'static;
    const MANUAL: bool;
    fn set(&self);
    fn reset(&self);
    fn try_wait(&self) -> bool;
    fn wait(&self) -> Self::Wait;
}

macro_rules! ev_impl {
    ($t:ty, $w:ty, $manual:expr, $reset:expr) => {
        impl Ev for $t {
            type Wait = $w;
            const MANUAL: bool = $manual;
            fn set(&self) {
                <$t>::set(self);
            }
            fn reset(&self) {
                let f: fn(&$t) = $reset;
                f(self);
            }
            fn try_wait(&self) -> bool {
                <$t>::try_wait(self)
            }
            fn wait(&self) -> Self::Wait {
                <$t>::wait(self)
            }
        }
    };
}
ev_impl!(AutoResetEvent, events::futures::AutoResetWaitFuture, false, |_| {});
ev_impl!(EmbeddedAutoResetEventRef, events::futures::EmbeddedAutoResetWaitFuture, false, |_| {});
ev_impl!(ManualResetEvent, events::futures::ManualResetWaitFuture, true, |e| e.reset());
ev_impl!(EmbeddedManualResetEventRef, events::futures::EmbeddedManualResetWaitFuture, true, |e| e.reset());

struct Recorder {
    clock: AtomicU64,
    ops: Mutex<Vec<Op>>,
    /// vector clocks at invocation / response of each op (same index as `ops`)
    clocks: Mutex<Vec<(Vec<u32>, Vec<u32>)>>,
    pending_inv: Mutex<std::collections::HashMap<u64, Vec<u32>>>,
}

impl Recorder {
    fn stamp(&self) -> u64 {
        let s = self.clock.fetch_add(1, Ordering::SeqCst);
        self.pending_inv.lock().unwrap().insert(s, vsched::clock_snapshot());
        s
    }
    fn record(&self, task: u8, kind: OpKind, inv: u64) {
        let res = self.clock.fetch_add(1, Ordering::SeqCst);
        let inv_clock = self.pending_inv.lock().unwrap().remove(&inv).unwrap_or_default();
        let res_clock = vsched::clock_snapshot();
        // keep both vectors appended under one lock so indices stay aligned
        let mut ops = self.ops.lock().unwrap();
        ops.push(Op { task, kind, inv, res });
        self.clocks.lock().unwrap().push((inv_clock, res_clock));
    }
}

/// A wait future parked at the end of a task: (global future id, latest waker id, future).
type Parked<W> = (u8, u8, Pin<Box<W>>);

struct Exec {
    out: vsched::Outcome,
    ops: Vec<Op>,
    clocks: Vec<(Vec<u32>, Vec<u32>)>,
    ledger: Arc<Ledger>,
    /// per parked future: (id, latest waker, final poll ready?)
    finals: Vec<(u8, u8, bool)>,
    final_signal: bool,
}

fn execute<E: Ev>(case: &Case, make: impl FnOnce() -> (E, Box<dyn FnOnce() + Send>)) -> Exec {
    let ledger = Arc::new(Ledger::default());
    let rec = Arc::new(Recorder {
        clock: AtomicU64::new(1),
        ops: Mutex::new(Vec::new()),
        clocks: Mutex::new(Vec::new()),
        pending_inv: Mutex::new(std::collections::HashMap::new()),
    });
    let parked: Arc<Mutex<Vec<Parked<E::Wait>>>> = Arc::new(Mutex::new(Vec::new()));
    let fin: Arc<Mutex<Option<(E, Box<dyn FnOnce() + Send>)>>> = Arc::new(Mutex::new(None));
    let result: Arc<Mutex<(Vec<(u8, u8, bool)>, bool)>> = Arc::new(Mutex::new((Vec::new(), false)));
    let cfg = vsched::Config {
        stale_loads: case.stale,
        trace: std::env::var_os("VSCHED_TRACE").is_some(),
        ..vsched::Config::default()
    };
    let out = {
        let ledger = Arc::clone(&ledger);
        let ledger_f = Arc::clone(&ledger);
        let rec1 = Arc::clone(&rec);
        let rec_f = Arc::clone(&rec);
        let parked1 = Arc::clone(&parked);
        let parked_f = Arc::clone(&parked);
        let fin1 = Arc::clone(&fin);
        let fin_f = Arc::clone(&fin);
        let result_f = Arc::clone(&result);
        let tasks = case.tasks.clone();
        vsched::run_with_finale(
            &case.schedule,
            &cfg,
            move || {
                let (ev, keep) = make();
                let mut v: Vec<vsched::TaskFn> = Vec::new();
                for (ti, script) in tasks.iter().enumerate() {
                    let ev = ev.clone();
                    let script = script.clone();
                    let rec = Arc::clone(&rec1);
                    let ledger = Arc::clone(&ledger);
                    let parked = Arc::clone(&parked1);
                    v.push(Box::new(move || {
                        let t = ti as u8;
                        let mut slots: [Option<(u8, u8, Pin<Box<E::Wait>>)>; 2] = [None, None];
                        for op in &script {
                            match *op {
                                TOp::Yield => vsched::yield_point(),
                                TOp::Set => {
                                    let inv = rec.stamp();
                                    ev.set();
                                    rec.record(t, OpKind::Set, inv);
                                }
                                TOp::Reset => {
                                    if E::MANUAL {
                                        let inv = rec.stamp();
                                        ev.reset();
                                        rec.record(t, OpKind::Reset, inv);
                                    }
                                }
                                TOp::TryWait => {
                                    let inv = rec.stamp();
                                    let b = ev.try_wait();
                                    rec.record(t, OpKind::TryWait(b), inv);
                                }
                                TOp::Poll { slot, w } => {
                                    let s = usize::from(slot % 2);
                                    let fut_id = t * 2 + slot % 2;
                                    if slots[s].is_none() {
                                        slots[s] = Some((fut_id, w, Box::pin(ev.wait())));
                                    }
                                    let (_, lw, f) = slots[s].as_mut().expect("present");
                                    *lw = w;
                                    // waker ids are global: task * 2 + w
                                    let wk = waker(usize::from(t * 2 + w % 2), &ledger, true, None);
                                    let mut cx = Context::from_waker(&wk);
                                    let inv = rec.stamp();
                                    match f.as_mut().poll(&mut cx) {
                                        Poll::Ready(()) => {
                                            rec.record(t, OpKind::Poll { fut: fut_id, ready: true }, inv);
                                            // a completed wait is dropped at once, as a runtime would
                                            let inv = rec.stamp();
                                            slots[s] = None;
                                            rec.record(t, OpKind::Cancel { fut: fut_id }, inv);
                                        }
                                        Poll::Pending => rec.record(t, OpKind::Poll { fut: fut_id, ready: false }, inv),
                                    }
                                }
                                TOp::DropWait { slot } => {
                                    let s = usize::from(slot % 2);
                                    if let Some((id, _, f)) = slots[s].take() {
                                        let inv = rec.stamp();
                                        drop(f);
                                        rec.record(t, OpKind::Cancel { fut: id }, inv);
                                    }
                                }
                            }
                        }
                        let mut p = parked.lock().unwrap();
                        for s in slots.into_iter().flatten() {
                            p.push(s);
                        }
                    }));
                }
                *fin1.lock().unwrap() = Some((ev, keep));
                v
            },
            move || {
                // quiescent observations, ordered after every task
                let (ev, keep) = fin_f.lock().unwrap().take().expect("set by setup");
                let t = 7u8;
                let mut finals = Vec::new();
                let mut parked = std::mem::take(&mut *parked_f.lock().unwrap());
                parked.sort_by_key(|p| p.0);
                let inv = rec_f.stamp();
                let sig = ev.try_wait();
                rec_f.record(t, OpKind::TryWait(sig), inv);
                for (id, lw, mut f) in parked {
                    let wk = waker(7, &ledger_f, false, None);
                    let mut cx = Context::from_waker(&wk);
                    let inv = rec_f.stamp();
                    let ready = f.as_mut().poll(&mut cx).is_ready();
                    rec_f.record(t, OpKind::Poll { fut: id, ready }, inv);
                    let inv = rec_f.stamp();
                    drop(f);
                    rec_f.record(t, OpKind::Cancel { fut: id }, inv);
                    finals.push((id, lw, ready));
                }
                drop(ev);
                keep();
                *result_f.lock().unwrap() = (finals, sig);
            },
        )
    };
    if !out.trace.is_empty() {
        eprintln!("{}", out.trace.join("\n"));
    }
    let ops = std::mem::take(&mut *rec.ops.lock().unwrap());
    let clocks = std::mem::take(&mut *rec.clocks.lock().unwrap());
    let (finals, final_signal) = std::mem::take(&mut *result.lock().unwrap());
    Exec {
        out,
        ops,
        clocks,
        ledger,
        finals,
        final_signal,
    }
}

fn run_kind(case: &Case) -> (Exec, bool) {
    match case.kind % 4 {
        0 => (execute::<AutoResetEvent>(case, || (AutoResetEvent::boxed(), Box::new(|| {}))), false),
        1 => (
            execute::<EmbeddedAutoResetEventRef>(case, || {
                let place = Box::pin(EmbeddedAutoResetEvent::new());
                // SAFETY: `place` outlives every reference and wait future (dropped in the finale).
                let r = unsafe { AutoResetEvent::embedded(place.as_ref()) };
                struct Keep(Pin<Box<EmbeddedAutoResetEvent>>);
                // SAFETY: only dropped on the main thread after quiescence.
                unsafe impl Send for Keep {}
                let k = Keep(place);
                (r, Box::new(move || drop(k)))
            }),
            false,
        ),
        2 => (execute::<ManualResetEvent>(case, || (ManualResetEvent::boxed(), Box::new(|| {}))), true),
        _ => (
            execute::<EmbeddedManualResetEventRef>(case, || {
                let place = Box::pin(EmbeddedManualResetEvent::new());
                // SAFETY: `place` outlives every reference and wait future (dropped in the finale).
                let r = unsafe { ManualResetEvent::embedded(place.as_ref()) };
                struct Keep(Pin<Box<EmbeddedManualResetEvent>>);
                // SAFETY: only dropped on the main thread after quiescence.
                unsafe impl Send for Keep {}
                let k = Keep(place);
                (r, Box::new(move || drop(k)))
            }),
            true,
        ),
    }
}

fn check(case: &Case, ctx: &mut Ctx) -> Verdict {
    let kind = KIND[usize::from(case.kind % 4)];
    let (ex, manual) = run_kind(case);
    let f = |k: &str, msg: String| Failure::new(format!("C08/{kind}/{k}"), format!("{msg}; tasks={:?} schedule={:?}", case.tasks, case.schedule));
    ctx.classify(&format!("kind:{kind}"));
    ctx.classify(&format!("tasks:{}", case.tasks.len()));
    if ex.out.hung {
        return Err(f("hang", format!("execution exceeded {} scheduling points and did not finish when left running freely", ex.out.steps)));
    }
    if ex.out.step_bound_hit {
        ctx.classify("inconclusive-step-bound");
        return Ok(());
    }
    if let Some((t, m)) = ex.out.panics.first() {
        return Err(f("panic", format!("task {t} panicked: {m}")));
    }
    // overlap statistics
    let overlapping = ex.ops.iter().enumerate().any(|(i, a)| ex.ops.iter().skip(i + 1).any(|b| a.task != b.task && a.inv < b.res && b.inv < a.res));
    let has_set = ex.ops.iter().any(|o| o.kind == OpKind::Set);
    let has_reg = ex.ops.iter().any(|o| matches!(o.kind, OpKind::Poll { ready: false, .. }));
    if overlapping {
        ctx.classify("overlapping-ops");
    }
    if ex.out.preemptions > 0 {
        ctx.classify("preempted");
    }
    if has_reg {
        ctx.classify("registered-wait");
    }
    if ex.ops.iter().any(|o| matches!(o.kind, OpKind::Cancel { .. }) && o.task != 7) {
        ctx.classify("cancelled-wait");
    }
    if overlapping && has_set && has_reg {
        ctx.nontrivial();
    }

    // order between calls: real time for sequentially consistent executions; when a load was
    // served an older store there is no global time to appeal to, so only calls ordered by
    // happens-before (response clock <= invocation clock) are constrained
    let before = if ex.out.stale_taken == 0 {
        real_time_order(&ex.ops)
    } else {
        ctx.classify("stale-load-taken");
        let le = |a: &Vec<u32>, b: &Vec<u32>| !a.is_empty() && a.len() == b.len() && a.iter().zip(b.iter()).all(|(x, y)| x <= y);
        (0..ex.ops.len())
            .map(|j| (0..ex.ops.len()).filter(|i| *i != j && (ex.ops[*i].task == ex.ops[j].task && ex.ops[*i].res < ex.ops[j].inv || le(&ex.clocks[*i].1, &ex.clocks[j].0))).fold(0u64, |m, i| m | (1u64 << i)))
            .collect()
    };
    let finals = linearize_with(manual, &ex.ops, &before);
    if finals.is_empty() {
        let mut hist: Vec<&Op> = ex.ops.iter().collect();
        hist.sort_by_key(|o| o.inv);
        let text: Vec<String> = hist.iter().map(|o| format!("t{}:{:?}[{}..{}]", o.task, o.kind, o.inv, o.res)).collect();
        if manual && linearize_manual_two_point(&ex.ops, &before) {
            // explained only if set() publishes the flag and releases its waiters in separate
            // steps (observable when a reset runs concurrently with a set)
            return Err(f("history/not-linearizable/set-flag-and-waiter-release-not-atomic", format!("the history has no linearization with an atomic set(); it is explained by set() publishing the flag and releasing waiters in separate steps with a concurrent reset(): {}", text.join(" "))));
        }
        return Err(f("history/not-linearizable", format!("no sequential order of the calls respects real time and the specification: {}", text.join(" "))));
    }
    // wake obligation: a parked waiter that turned out to be released must have had its latest
    // waker invoked (its notification is what made the final poll ready: the stored signal was
    // consumed by the harness's try_wait before)
    for (id, lw, ready) in &ex.finals {
        let task = id / 2;
        let wid = usize::from(task * 2 + lw % 2);
        let wakes = ex.ledger.wakes[wid % 8].load(Ordering::Relaxed);
        if *ready && wakes == 0 {
            return Err(f("wake/released-waiter-not-woken", format!("wait future {id} was released (its final poll is ready without a stored signal) but its latest waker {wid} was never invoked")));
        }
        if !*ready && ex.final_signal {
            return Err(f("wake/signal-stored-while-waiter-registered", format!("a signal is stored while wait future {id} is still registered and pending")));
        }
    }
    // waker clone accounting and happens-before on clones
    if ex.ledger.waker_double_consume.load(Ordering::Relaxed) > 0 {
        return Err(f("waker/used-after-consumed", "a waker clone was used after it had been woken or dropped".into()));
    }
    let clones = ex.ledger.waker_clones.load(Ordering::Relaxed);
    let consumed = ex.ledger.waker_consumed.load(Ordering::Relaxed);
    if clones != consumed {
        return Err(f("waker/clone-leaked", format!("{clones} waker clones made, {consumed} consumed after every wait future is gone")));
    }
    if let Some(r) = ex.out.races.first() {
        return Err(f(&format!("race/{}", r.object.replace(' ', "-")), format!("unordered conflicting accesses to a {}: task {} {} vs task {} {}", r.object, r.first_task, r.first, r.second_task, r.second)));
    }
    ex.ledger.free_wakers();
    Ok(())
}

fn main() {
    vsched::install_shim!(events);
    vsched::install_shim!(awaiter_set);
    let mut h = Harness::from_args("C08");
    let cases = h.cases(400_000, 16_000_000);
    h.section(
        "schedules",
        "generated program (event in {auto, manual} x {boxed, embedded}; 2..3 tasks x 1..4 ops of set, reset, try_wait, poll wait slot 0|1 with waker 0|1 (re-poll = same slot, other waker), drop wait, yield) x generated schedule bytes (every atomic op / mutex acquisition of events and awaiter_set is a scheduling point, stale loads allowed by coherence); wait futures still pending at task end stay registered and are observed by the harness after quiescence (try_wait, final poll, drop). Oracle: Wing-Gong linearizability search over the logged history under the sequential spec (auto: one stored signal, set releases one registered waiter else stores, ready wait consumes its notification or the signal, cancelling a notified wait re-issues; manual: flag, set releases all registered), released parked waiters had their latest waker invoked, no stored signal next to a registered waiter, waker clones consumed exactly once, HB race detection on waker clones. non-trivial = history with overlapping operations of different tasks including a set and a registered (pending) wait; distinct by serialised case",
        cases,
        case_strategy(),
        check,
    );
    h.finish()
}
