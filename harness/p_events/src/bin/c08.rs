//! C08 — reset events are linearizable; no signal lost, duplicated or delivered to two.
//!
//! Section `schedules`: 2..3 tasks issue set / reset / try_wait / poll-wait / re-poll / drop-wait
//! against one thread-safe event under generated schedule bytes (vsched over the sync shim of
//! `events` and `awaiter_set`); every call is logged with invocation / response stamps and the
//! history (plus the quiescent observations of the harness) must have a linearization under the
//! sequential specification in `p_events::step`. Waiters the final state says are released must
//! have had their latest waker invoked.

use std::future::Future;
use std::pin::Pin;
use std::sync::atomic::{AtomicU64, Ordering};
use std::sync::{Arc, Mutex};
use std::task::{Context, Poll};

use events::{AutoResetEvent, EmbeddedAutoResetEvent, EmbeddedAutoResetEventRef, EmbeddedManualResetEvent, EmbeddedManualResetEventRef, ManualResetEvent};
use p_events::{Op, OpKind, linearize_manual_two_point, linearize_manual_two_point_opt, linearize_with, real_time_order};
use p_events_once::{Ledger, waker};
use proptest::prelude::*;
use serde::{Deserialize, Serialize};
use vcommon::{Ctx, Failure, Harness, Verdict};

#[derive(Debug, Clone, Copy, Serialize, Deserialize, PartialEq, Eq)]
enum TOp {
    Set,
    Reset,
    TryWait,
    /// poll wait future in `slot` (created on demand) with root waker `w`
    Poll {
        slot: u8,
        w: u8,
    },
    DropWait {
        slot: u8,
    },
    Yield,
}

#[derive(Debug, Clone, Serialize, Deserialize)]
struct Case {
    /// 0 auto boxed, 1 auto embedded, 2 manual boxed, 3 manual embedded
    kind: u8,
    tasks: Vec<Vec<TOp>>,
    /// allow loads to be served an older store that coherence permits; the history is then
    /// ordered by happens-before between calls instead of by real time
    stale: bool,
    schedule: Vec<u8>,
}

fn case_strategy() -> impl Strategy<Value = Case> {
    let op = prop_oneof![
        4 => Just(TOp::Set),
        2 => Just(TOp::Reset),
        2 => Just(TOp::TryWait),
        6 => (0u8..2, 0u8..2).prop_map(|(slot, w)| TOp::Poll { slot, w }),
        2 => (0u8..2).prop_map(|slot| TOp::DropWait { slot }),
        1 => Just(TOp::Yield),
    ];
    let sched_byte = prop_oneof![5 => Just(0u8), 3 => 128u8..=255, 1 => 1u8..128];
    (0u8..4, prop::collection::vec(prop::collection::vec(op, 1..5), 2..4), prop::bool::weighted(0.3), prop::collection::vec(sched_byte, 0..60)).prop_map(|(kind, tasks, stale, schedule)| Case { kind, tasks, stale, schedule })
}

const KIND: [&str; 4] = ["auto-boxed", "auto-embedded", "manual-boxed", "manual-embedded"];

trait Ev: Clone + Send + 'static {
    type Wait: Future<Output = ()> + Send + 'static;
    const MANUAL: bool;
    fn set(&self);
    fn reset(&self);
    fn try_wait(&self) -> bool;
    fn wait(&self) -> Self::Wait;
}

macro_rules! ev_impl {
    ($t:ty, $w:ty, $manual:expr, $reset:expr) => {
        impl Ev for $t {
            type Wait = $w;
            const MANUAL: bool = $manual;
            fn set(&self) {
                <$t>::set(self);
            }
            fn reset(&self) {
                let f: fn(&$t) = $reset;
                f(self);
            }
            fn try_wait(&self) -> bool {
                <$t>::try_wait(self)
            }
            fn wait(&self) -> Self::Wait {
                <$t>::wait(self)
            }
        }
    };
}
ev_impl!(AutoResetEvent, events::futures::AutoResetWaitFuture, false, |_| {});
ev_impl!(EmbeddedAutoResetEventRef, events::futures::EmbeddedAutoResetWaitFuture, false, |_| {});
ev_impl!(ManualResetEvent, events::futures::ManualResetWaitFuture, true, |e| e.reset());
ev_impl!(EmbeddedManualResetEventRef, events::futures::EmbeddedManualResetWaitFuture, true, |e| e.reset());

struct Recorder {
    clock: AtomicU64,
    ops: Mutex<Vec<Op>>,
    /// vector clocks at invocation / response of each op (same index as `ops`)
    clocks: Mutex<Vec<(Vec<u32>, Vec<u32>)>>,
    pending_inv: Mutex<std::collections::HashMap<u64, Vec<u32>>>,
}

impl Recorder {
    fn stamp(&self) -> u64 {
        let s = self.clock.fetch_add(1, Ordering::SeqCst);
        self.pending_inv.lock().unwrap().insert(s, vsched::clock_snapshot());
        s
    }
    fn record(&self, task: u8, kind: OpKind, inv: u64) {
        let res = self.clock.fetch_add(1, Ordering::SeqCst);
        let inv_clock = self.pending_inv.lock().unwrap().remove(&inv).unwrap_or_default();
        let res_clock = vsched::clock_snapshot();
        // keep both vectors appended under one lock so indices stay aligned
        let mut ops = self.ops.lock().unwrap();
        ops.push(Op { task, kind, inv, res });
        self.clocks.lock().unwrap().push((inv_clock, res_clock));
    }
}

/// A wait future parked at the end of a task: (global future id, latest waker id, future).
type Parked<W> = (u8, u8, Pin<Box<W>>);

struct Exec {
    out: vsched::Outcome,
    ops: Vec<Op>,
    clocks: Vec<(Vec<u32>, Vec<u32>)>,
    ledger: Arc<Ledger>,
    /// per parked future: (id, latest waker, final poll ready?)
    finals: Vec<(u8, u8, bool)>,
    final_signal: bool,
}

fn execute<E: Ev>(case: &Case, make: impl FnOnce() -> (E, Box<dyn FnOnce() + Send>)) -> Exec {
    let ledger = Arc::new(Ledger::default());
    let rec = Arc::new(Recorder {
        clock: AtomicU64::new(1),
        ops: Mutex::new(Vec::new()),
        clocks: Mutex::new(Vec::new()),
        pending_inv: Mutex::new(std::collections::HashMap::new()),
    });
    let parked: Arc<Mutex<Vec<Parked<E::Wait>>>> = Arc::new(Mutex::new(Vec::new()));
    let fin: Arc<Mutex<Option<(E, Box<dyn FnOnce() + Send>)>>> = Arc::new(Mutex::new(None));
    let result: Arc<Mutex<(Vec<(u8, u8, bool)>, bool)>> = Arc::new(Mutex::new((Vec::new(), false)));
    let cfg = vsched::Config {
        stale_loads: case.stale,
        trace: std::env::var_os("VSCHED_TRACE").is_some(),
        ..vsched::Config::default()
    };
    let out = {
        let ledger = Arc::clone(&ledger);
        let ledger_f = Arc::clone(&ledger);
        let rec1 = Arc::clone(&rec);
        let rec_f = Arc::clone(&rec);
        let parked1 = Arc::clone(&parked);
        let parked_f = Arc::clone(&parked);
        let fin1 = Arc::clone(&fin);
        let fin_f = Arc::clone(&fin);
        let result_f = Arc::clone(&result);
        let tasks = case.tasks.clone();
        vsched::run_with_finale(
            &case.schedule,
            &cfg,
            move || {
                let (ev, keep) = make();
                let mut v: Vec<vsched::TaskFn> = Vec::new();
                for (ti, script) in tasks.iter().enumerate() {
                    let ev = ev.clone();
                    let script = script.clone();
                    let rec = Arc::clone(&rec1);
                    let ledger = Arc::clone(&ledger);
                    let parked = Arc::clone(&parked1);
                    v.push(Box::new(move || {
                        let t = ti as u8;
                        let mut slots: [Option<(u8, u8, Pin<Box<E::Wait>>)>; 2] = [None, None];
                        for op in &script {
                            match *op {
                                TOp::Yield => vsched::yield_point(),
                                TOp::Set => {
                                    let inv = rec.stamp();
                                    ev.set();
                                    rec.record(t, OpKind::Set, inv);
                                }
                                TOp::Reset => {
                                    if E::MANUAL {
                                        let inv = rec.stamp();
                                        ev.reset();
                                        rec.record(t, OpKind::Reset, inv);
                                    }
                                }
                                TOp::TryWait => {
                                    let inv = rec.stamp();
                                    let b = ev.try_wait();
                                    rec.record(t, OpKind::TryWait(b), inv);
                                }
                                TOp::Poll { slot, w } => {
                                    let s = usize::from(slot % 2);
                                    let fut_id = t * 2 + slot % 2;
                                    if slots[s].is_none() {
                                        slots[s] = Some((fut_id, w, Box::pin(ev.wait())));
                                    }
                                    let (_, lw, f) = slots[s].as_mut().expect("present");
                                    *lw = w;
                                    // waker ids are global: task * 2 + w
                                    let wk = waker(usize::from(t * 2 + w % 2), &ledger, true, None);
                                    let mut cx = Context::from_waker(&wk);
                                    let inv = rec.stamp();
                                    match f.as_mut().poll(&mut cx) {
                                        Poll::Ready(()) => {
                                            rec.record(t, OpKind::Poll { fut: fut_id, ready: true }, inv);
                                            // a completed wait is dropped at once, as a runtime would
                                            let inv = rec.stamp();
                                            slots[s] = None;
                                            rec.record(t, OpKind::Cancel { fut: fut_id }, inv);
                                        }
                                        Poll::Pending => rec.record(t, OpKind::Poll { fut: fut_id, ready: false }, inv),
                                    }
                                }
                                TOp::DropWait { slot } => {
                                    let s = usize::from(slot % 2);
                                    if let Some((id, _, f)) = slots[s].take() {
                                        let inv = rec.stamp();
                                        drop(f);
                                        rec.record(t, OpKind::Cancel { fut: id }, inv);
                                    }
                                }
                            }
                        }
                        let mut p = parked.lock().unwrap();
                        for s in slots.into_iter().flatten() {
                            p.push(s);
                        }
                    }));
                }
                *fin1.lock().unwrap() = Some((ev, keep));
                v
            },
            move || {
                // quiescent observations, ordered after every task
                let (ev, keep) = fin_f.lock().unwrap().take().expect("set by setup");
                let t = 7u8;
                let mut finals = Vec::new();
                let mut parked = std::mem::take(&mut *parked_f.lock().unwrap());
                parked.sort_by_key(|p| p.0);
                let inv = rec_f.stamp();
                let sig = ev.try_wait();
                rec_f.record(t, OpKind::TryWait(sig), inv);
                for (id, lw, mut f) in parked {
                    let wk = waker(7, &ledger_f, false, None);
                    let mut cx = Context::from_waker(&wk);
                    let inv = rec_f.stamp();
                    let ready = f.as_mut().poll(&mut cx).is_ready();
                    rec_f.record(t, OpKind::Poll { fut: id, ready }, inv);
                    let inv = rec_f.stamp();
                    drop(f);
                    rec_f.record(t, OpKind::Cancel { fut: id }, inv);
                    finals.push((id, lw, ready));
                }
                drop(ev);
                keep();
                *result_f.lock().unwrap() = (finals, sig);
            },
        )
    };
    if !out.trace.is_empty() {
        eprintln!("{}", out.trace.join("\n"));
    }
    let ops = std::mem::take(&mut *rec.ops.lock().unwrap());
    let clocks = std::mem::take(&mut *rec.clocks.lock().unwrap());
    let (finals, final_signal) = std::mem::take(&mut *result.lock().unwrap());
    Exec {
        out,
        ops,
        clocks,
        ledger,
        finals,
        final_signal,
    }
}

fn run_kind(case: &Case) -> (Exec, bool) {
    match case.kind % 4 {
        0 => (execute::<AutoResetEvent>(case, || (AutoResetEvent::boxed(), Box::new(|| {}))), false),
        1 => (
            execute::<EmbeddedAutoResetEventRef>(case, || {
                let place = Box::pin(EmbeddedAutoResetEvent::new());
                // SAFETY: `place` outlives every reference and wait future (dropped in the finale).
                let r = unsafe { AutoResetEvent::embedded(place.as_ref()) };
                struct Keep(Pin<Box<EmbeddedAutoResetEvent>>);
                // SAFETY: only dropped on the main thread after quiescence.
                unsafe impl Send for Keep {}
                let k = Keep(place);
                (r, Box::new(move || drop(k)))
            }),
            false,
        ),
        2 => (execute::<ManualResetEvent>(case, || (ManualResetEvent::boxed(), Box::new(|| {}))), true),
        _ => (
            execute::<EmbeddedManualResetEventRef>(case, || {
                let place = Box::pin(EmbeddedManualResetEvent::new());
                // SAFETY: `place` outlives every reference and wait future (dropped in the finale).
                let r = unsafe { ManualResetEvent::embedded(place.as_ref()) };
                struct Keep(Pin<Box<EmbeddedManualResetEvent>>);
                // SAFETY: only dropped on the main thread after quiescence.
                unsafe impl Send for Keep {}
                let k = Keep(place);
                (r, Box::new(move || drop(k)))
            }),
            true,
        ),
    }
}

fn check(case: &Case, ctx: &mut Ctx) -> Verdict {
    let kind = KIND[usize::from(case.kind % 4)];
    let (ex, manual) = run_kind(case);
    let f = |k: &str, msg: String| Failure::new(format!("C08/{kind}/{k}"), format!("{msg}; tasks={:?} schedule={:?}", case.tasks, case.schedule));
    ctx.classify(&format!("kind:{kind}"));
    ctx.classify(&format!("tasks:{}", case.tasks.len()));
    if ex.out.hung {
        return Err(f("hang", format!("execution exceeded {} scheduling points and did not finish when left running freely", ex.out.steps)));
    }
    if ex.out.step_bound_hit {
        ctx.classify("inconclusive-step-bound");
        return Ok(());
    }
    if let Some((t, m)) = ex.out.panics.first() {
        return Err(f("panic", format!("task {t} panicked: {m}")));
    }
    // overlap statistics
    let overlapping = ex.ops.iter().enumerate().any(|(i, a)| ex.ops.iter().skip(i + 1).any(|b| a.task != b.task && a.inv < b.res && b.inv < a.res));
    let has_set = ex.ops.iter().any(|o| o.kind == OpKind::Set);
    let has_reg = ex.ops.iter().any(|o| matches!(o.kind, OpKind::Poll { ready: false, .. }));
    if overlapping {
        ctx.classify("overlapping-ops");
    }
    if ex.out.preemptions > 0 {
        ctx.classify("preempted");
    }
    if has_reg {
        ctx.classify("registered-wait");
    }
    if ex.ops.iter().any(|o| matches!(o.kind, OpKind::Cancel { .. }) && o.task != 7) {
        ctx.classify("cancelled-wait");
    }
    if overlapping && has_set && has_reg {
        ctx.nontrivial();
    }

    // order between calls: real time for sequentially consistent executions; when a load was
    // served an older store there is no global time to appeal to, so only calls ordered by
    // happens-before (response clock <= invocation clock) are constrained
    let before = if ex.out.stale_taken == 0 {
        real_time_order(&ex.ops)
    } else {
        ctx.classify("stale-load-taken");
        let le = |a: &Vec<u32>, b: &Vec<u32>| !a.is_empty() && a.len() == b.len() && a.iter().zip(b.iter()).all(|(x, y)| x <= y);
        (0..ex.ops.len())
            .map(|j| (0..ex.ops.len()).filter(|i| *i != j && (ex.ops[*i].task == ex.ops[j].task && ex.ops[*i].res < ex.ops[j].inv || le(&ex.clocks[*i].1, &ex.clocks[j].0))).fold(0u64, |m, i| m | (1u64 << i)))
            .collect()
    };
    let finals = linearize_with(manual, &ex.ops, &before);
    if finals.is_empty() {
        let mut hist: Vec<&Op> = ex.ops.iter().collect();
        hist.sort_by_key(|o| o.inv);
        let text: Vec<String> = hist.iter().map(|o| format!("t{}:{:?}[{}..{}]", o.task, o.kind, o.inv, o.res)).collect();
        if manual && linearize_manual_two_point(&ex.ops, &before) {
            // explained only if set() publishes the flag and releases its waiters in separate
            // steps (observable when a reset runs concurrently with a set)
            return Err(f("history/not-linearizable/set-flag-and-waiter-release-not-atomic", format!("the history has no linearization with an atomic set(); it is explained by set() publishing the flag and releasing waiters in separate steps with a concurrent reset(): {}", text.join(" "))));
        }
        if manual && linearize_manual_two_point_opt(&ex.ops, &before, true) {
            return Err(f("history/not-linearizable/set-on-already-set-flag-returns-before-pending-release", format!("the history has no linearization with an atomic set(); it is explained by set() publishing the flag and releasing waiters in separate steps, with a second set() that finds the flag already published returning at once while the first is still between its steps: {}", text.join(" "))));
        }
        return Err(f("history/not-linearizable", format!("no sequential order of the calls respects real time and the specification: {}", text.join(" "))));
    }
    // wake obligation: a parked waiter that turned out to be released must have had its latest
    // waker invoked (its notification is what made the final poll ready: the stored signal was
    // consumed by the harness's try_wait before)
    for (id, lw, ready) in &ex.finals {
        let task = id / 2;
        let wid = usize::from(task * 2 + lw % 2);
        let wakes = ex.ledger.wakes[wid % 8].load(Ordering::Relaxed);
        if *ready && wakes == 0 {
            return Err(f("wake/released-waiter-not-woken", format!("wait future {id} was released (its final poll is ready without a stored signal) but its latest waker {wid} was never invoked")));
        }
        if !*ready && ex.final_signal {
            return Err(f("wake/signal-stored-while-waiter-registered", format!("a signal is stored while wait future {id} is still registered and pending")));
        }
    }
    // waker clone accounting and happens-before on clones
    if ex.ledger.waker_double_consume.load(Ordering::Relaxed) > 0 {
        return Err(f("waker/used-after-consumed", "a waker clone was used after it had been woken or dropped".into()));
    }
    let clones = ex.ledger.waker_clones.load(Ordering::Relaxed);
    let consumed = ex.ledger.waker_consumed.load(Ordering::Relaxed);
    if clones != consumed {
        return Err(f("waker/clone-leaked", format!("{clones} waker clones made, {consumed} consumed after every wait future is gone")));
    }
    if let Some(r) = ex.out.races.first() {
        return Err(f(&format!("race/{}", r.object.replace(' ', "-")), format!("unordered conflicting accesses to a {}: task {} {} vs task {} {}", r.object, r.first_task, r.first, r.second_task, r.second)));
    }
    ex.ledger.free_wakers();
    Ok(())
}


// ------------------------------------------------------------------------------------------------
// section `awaiter-set`: model-based histories on the intrusive awaiter list itself

#[derive(Debug, Clone, Copy, Serialize, Deserialize, PartialEq, Eq)]
enum AOp {
    Register { a: u8 },
    Unregister { a: u8 },
    TakeNotification { a: u8 },
    NotifyOne,
    AdvanceGeneration,
    NotifyPrior,
    /// drop the awaiter (after unregistering it if needed) and create a fresh one in its place
    Recreate { a: u8 },
}

fn aops_strategy() -> impl Strategy<Value = Vec<AOp>> {
    let op = prop_oneof![
        6 => (0u8..5).prop_map(|a| AOp::Register { a }),
        3 => (0u8..5).prop_map(|a| AOp::Unregister { a }),
        3 => (0u8..5).prop_map(|a| AOp::TakeNotification { a }),
        4 => Just(AOp::NotifyOne),
        2 => Just(AOp::AdvanceGeneration),
        3 => Just(AOp::NotifyPrior),
        1 => (0u8..5).prop_map(|a| AOp::Recreate { a }),
    ];
    prop::collection::vec(op, 0..60)
}

#[derive(Clone, Copy, PartialEq, Eq, Debug)]
enum AState {
    Idle,
    Waiting { generation: u64, waker: usize },
    Notified,
}

fn run_awaiter_set(ops: &Vec<AOp>, ctx: &mut Ctx) -> Verdict {
    use awaiter_set::{Awaiter, AwaiterSet};
    let fl = |k: &str, msg: String| Failure::new(format!("C08/awaiter-set/{k}"), format!("{msg}; ops={ops:?}"));
    let ledger = Arc::new(Ledger::default());
    let mut set = AwaiterSet::new();
    let mut awaiters: Vec<Pin<Box<Awaiter>>> = (0..5).map(|_| Box::pin(Awaiter::new())).collect();
    let mut model = [AState::Idle; 5];
    // registration order of waiting awaiters
    let mut order: Vec<usize> = Vec::new();
    let mut generation = 1u64;
    let mut next_waker = 0usize;
    // waker id -> number of wakes seen through the ledger is not needed: identity is checked by
    // waking the returned waker and looking at which id's counter moved
    let mut notified_any = false;
    for (step, op) in ops.iter().enumerate() {
        match *op {
            AOp::Register { a } => {
                let a = usize::from(a);
                if model[a] == AState::Notified {
                    continue; // contract: consume the notification before re-registering
                }
                let wid = next_waker % 8;
                next_waker += 1;
                let w = waker(wid, &ledger, false, None);
                // the set stores the waker handed in (the harness's root handle is what it owns now)
                // SAFETY: the awaiter is pinned, outlives its registration (unregistered before it
                // is dropped) and is only used with this set.
                unsafe { set.register(awaiters[a].as_mut(), w) };
                match model[a] {
                    AState::Waiting { generation: g, .. } => model[a] = AState::Waiting { generation: g, waker: wid },
                    _ => {
                        model[a] = AState::Waiting { generation, waker: wid };
                        order.push(a);
                    }
                }
            }
            AOp::Unregister { a } => {
                let a = usize::from(a);
                if model[a] == AState::Idle {
                    continue; // contract: only registered awaiters are unregistered
                }
                // SAFETY: as above.
                unsafe { set.unregister(awaiters[a].as_mut()) };
                if matches!(model[a], AState::Waiting { .. }) {
                    model[a] = AState::Idle;
                    order.retain(|x| *x != a);
                }
            }
            AOp::TakeNotification { a } => {
                let a = usize::from(a);
                let got = awaiters[a].take_notification();
                if got != (model[a] == AState::Notified) {
                    return Err(fl("take_notification/differs-from-model", format!("step {step}: take_notification() = {got}, model state {:?}", model[a])));
                }
                if got {
                    model[a] = AState::Idle;
                }
            }
            AOp::NotifyOne | AOp::NotifyPrior => {
                let prior = matches!(op, AOp::NotifyPrior);
                let before: Vec<u32> = (0..8).map(|i| ledger.wakes[i].load(Ordering::Relaxed)).collect();
                let got = if prior { set.notify_one_prior_generation() } else { set.notify_one() };
                let expect_some = if prior {
                    order.first().is_some_and(|h| matches!(model[*h], AState::Waiting { generation: g, .. } if g < generation))
                } else {
                    !order.is_empty()
                };
                match got {
                    None => {
                        if expect_some {
                            return Err(fl("notify/none-but-waiter-registered", format!("step {step} {op:?}: returned None with waiting awaiters {order:?} (generation {generation})")));
                        }
                    }
                    Some(w) => {
                        if !expect_some {
                            return Err(fl("notify/some-but-nobody-eligible", format!("step {step} {op:?}: returned a waker although no awaiter is eligible")));
                        }
                        w.wake();
                        notified_any = true;
                        let moved: Vec<usize> = (0..8).filter(|i| ledger.wakes[*i].load(Ordering::Relaxed) != before[*i]).collect();
                        // which waiting awaiter holds that waker id as its latest waker?
                        let candidates: Vec<usize> = order.iter().copied().filter(|x| matches!(model[*x], AState::Waiting { waker, .. } if moved.contains(&waker))).collect();
                        let picked = if prior { candidates.iter().copied().find(|x| Some(x) == order.first()) } else { candidates.iter().copied().find(|x| awaiters[*x].is_notified()) };
                        let Some(x) = picked else {
                            return Err(fl("notify/waker-not-latest-of-a-waiting-awaiter", format!("step {step} {op:?}: the returned waker (ids {moved:?}) is not the latest waker of an eligible waiting awaiter; model {model:?}")));
                        };
                        model[x] = AState::Notified;
                        order.retain(|y| *y != x);
                    }
                }
            }
            AOp::AdvanceGeneration => {
                set.advance_generation();
                generation += 1;
            }
            AOp::Recreate { a } => {
                let a = usize::from(a);
                if matches!(model[a], AState::Waiting { .. }) {
                    // SAFETY: as above.
                    unsafe { set.unregister(awaiters[a].as_mut()) };
                    order.retain(|x| *x != a);
                }
                model[a] = AState::Idle;
                awaiters[a] = Box::pin(Awaiter::new());
            }
        }
        // state comparison
        if set.is_empty() != order.is_empty() {
            return Err(fl("is_empty/differs-from-model", format!("step {step}: is_empty() = {}, model has waiting awaiters {order:?}", set.is_empty())));
        }
        for a in 0..5 {
            let (reg, notif) = (awaiters[a].is_registered(), awaiters[a].is_notified());
            let (wreg, wnotif) = match model[a] {
                AState::Idle => (false, false),
                AState::Waiting { .. } => (true, false),
                AState::Notified => (true, true),
            };
            if (reg, notif) != (wreg, wnotif) {
                return Err(fl("awaiter-state/differs-from-model", format!("step {step}: awaiter {a} is_registered={reg} is_notified={notif}, model {:?}", model[a])));
            }
        }
    }
    // teardown: unregister everything, drop
    for a in 0..5 {
        if matches!(model[a], AState::Waiting { .. }) {
            // SAFETY: as above.
            unsafe { set.unregister(awaiters[a].as_mut()) };
        }
    }
    drop(awaiters);
    drop(set);
    let clones = ledger.waker_clones.load(Ordering::Relaxed);
    let consumed = ledger.waker_consumed.load(Ordering::Relaxed);
    if ledger.waker_double_consume.load(Ordering::Relaxed) > 0 || clones != consumed {
        return Err(fl("waker/not-consumed-exactly-once", format!("{clones} waker clones made, {consumed} consumed")));
    }
    ledger.free_wakers();
    if notified_any && generation > 1 {
        ctx.nontrivial();
    }
    Ok(())
}

// ------------------------------------------------------------------------------------------------
// section `local-reentrant`: single-threaded events whose wakers re-enter the event

use std::cell::{Cell, RefCell};
use std::rc::Rc;

use events::{EmbeddedLocalAutoResetEvent, EmbeddedLocalManualResetEvent, LocalAutoResetEvent, LocalManualResetEvent};

#[derive(Debug, Clone, Copy, Serialize, Deserialize, PartialEq, Eq)]
enum LAct {
    Nothing,
    Set,
    Reset,
    TryWait,
    /// poll wait future in slot (created on demand) with waker w
    Poll { slot: u8, w: u8 },
    DropWait { slot: u8 },
}

#[derive(Debug, Clone, Serialize, Deserialize)]
struct LCase {
    /// 0 local auto boxed, 1 local auto embedded, 2 local manual boxed, 3 local manual embedded
    kind: u8,
    program: Vec<LAct>,
    /// consumed in order by every `wake` callback the event fires
    callbacks: Vec<LAct>,
}

fn lcase_strategy() -> impl Strategy<Value = LCase> {
    fn act(top: bool) -> impl Strategy<Value = LAct> {
        prop_oneof![
            if top { 0 } else { 2 } => Just(LAct::Nothing),
            4 => Just(LAct::Set),
            2 => Just(LAct::Reset),
            2 => Just(LAct::TryWait),
            6 => (0u8..4, 0u8..3).prop_map(|(slot, w)| LAct::Poll { slot, w }),
            3 => (0u8..4).prop_map(|slot| LAct::DropWait { slot }),
        ]
    }
    (0u8..4, prop::collection::vec(act(true), 0..10), prop::collection::vec(act(false), 0..8)).prop_map(|(kind, program, callbacks)| LCase { kind, program, callbacks })
}

trait LEv: Clone + 'static {
    type Wait: Future<Output = ()> + 'static;
    const MANUAL: bool;
    fn set(&self);
    fn reset(&self);
    fn try_wait(&self) -> bool;
    fn wait(&self) -> Self::Wait;
}
macro_rules! lev_impl {
    ($t:ty, $w:ty, $manual:expr, $reset:expr) => {
        impl LEv for $t {
            type Wait = $w;
            const MANUAL: bool = $manual;
            fn set(&self) {
                <$t>::set(self);
            }
            fn reset(&self) {
                let f: fn(&$t) = $reset;
                f(self);
            }
            fn try_wait(&self) -> bool {
                <$t>::try_wait(self)
            }
            fn wait(&self) -> Self::Wait {
                <$t>::wait(self)
            }
        }
    };
}
lev_impl!(LocalAutoResetEvent, events::futures::LocalAutoResetWaitFuture, false, |_| {});
lev_impl!(events::EmbeddedLocalAutoResetEventRef, events::futures::EmbeddedLocalAutoResetWaitFuture, false, |_| {});
lev_impl!(LocalManualResetEvent, events::futures::LocalManualResetWaitFuture, true, |e| e.reset());
lev_impl!(events::EmbeddedLocalManualResetEventRef, events::futures::EmbeddedLocalManualResetWaitFuture, true, |e| e.reset());

trait LWorldDyn {
    fn on_wake(&self);
}

thread_local! {
    static LWORLD: RefCell<Option<Rc<dyn LWorldDyn>>> = const { RefCell::new(None) };
}

struct LWorld<E: LEv> {
    ev: E,
    slots: RefCell<Vec<Option<(u8, Pin<Box<E::Wait>>)>>>,
    busy: RefCell<Vec<bool>>,
    /// per slot: how many futures have lived there (each gets a fresh id)
    ids: RefCell<Vec<u8>>,
    next_id: Cell<u8>,
    callbacks: RefCell<std::vec::IntoIter<LAct>>,
    depth: Cell<u32>,
    ledger: Arc<Ledger>,
    clock: Cell<u64>,
    ops: RefCell<Vec<Op>>,
    reentered: Cell<u32>,
    latest_waker: RefCell<std::collections::HashMap<u8, u8>>,
}

impl<E: LEv> LWorld<E> {
    fn stamp(&self) -> u64 {
        let c = self.clock.get();
        self.clock.set(c + 1);
        c
    }
    fn record(&self, kind: OpKind, inv: u64) {
        let res = self.stamp();
        // nested calls carry the nesting depth as their "task" so that the real-time order only
        // relates calls that did not overlap
        self.ops.borrow_mut().push(Op { task: self.depth.get() as u8, kind, inv, res });
    }
    fn perform(&self, act: LAct) -> bool {
        match act {
            LAct::Nothing => false,
            LAct::Set => {
                let inv = self.stamp();
                self.ev.set();
                self.record(OpKind::Set, inv);
                true
            }
            LAct::Reset => {
                if !E::MANUAL {
                    return false;
                }
                let inv = self.stamp();
                self.ev.reset();
                self.record(OpKind::Reset, inv);
                true
            }
            LAct::TryWait => {
                let inv = self.stamp();
                let b = self.ev.try_wait();
                self.record(OpKind::TryWait(b), inv);
                true
            }
            LAct::Poll { slot, w } => {
                let s = usize::from(slot % 4);
                if self.busy.borrow()[s] {
                    return false;
                }
                let taken = self.slots.borrow_mut()[s].take();
                let (id, mut f) = match taken {
                    Some(x) => x,
                    None => {
                        let id = self.next_id.get();
                        if id >= 15 {
                            return false;
                        }
                        self.next_id.set(id + 1);
                        (id, Box::pin(self.ev.wait()))
                    }
                };
                self.busy.borrow_mut()[s] = true;
                self.latest_waker.borrow_mut().insert(id, w % 3);
                let cb: p_events_once::WakerCallback = Arc::new(|ev, _| {
                    if ev == p_events_once::WakerEvent::Wake || ev == p_events_once::WakerEvent::WakeByRef {
                        let w = LWORLD.with(|w| w.borrow().clone());
                        if let Some(w) = w {
                            w.on_wake();
                        }
                    }
                });
                let wk = waker(usize::from(w % 3), &self.ledger, false, Some(cb));
                let mut cx = Context::from_waker(&wk);
                let inv = self.stamp();
                let ready = f.as_mut().poll(&mut cx).is_ready();
                self.record(OpKind::Poll { fut: id, ready }, inv);
                if ready {
                    let inv = self.stamp();
                    drop(f);
                    self.record(OpKind::Cancel { fut: id }, inv);
                } else {
                    self.slots.borrow_mut()[s] = Some((id, f));
                }
                self.busy.borrow_mut()[s] = false;
                drop(wk);
                true
            }
            LAct::DropWait { slot } => {
                let s = usize::from(slot % 4);
                if self.busy.borrow()[s] {
                    return false;
                }
                let taken = self.slots.borrow_mut()[s].take();
                match taken {
                    Some((id, f)) => {
                        self.busy.borrow_mut()[s] = true;
                        let inv = self.stamp();
                        drop(f);
                        self.record(OpKind::Cancel { fut: id }, inv);
                        self.busy.borrow_mut()[s] = false;
                        true
                    }
                    None => false,
                }
            }
        }
    }
}

impl<E: LEv> LWorldDyn for LWorld<E> {
    fn on_wake(&self) {
        let d = self.depth.get();
        if d >= 3 {
            return;
        }
        self.depth.set(d + 1);
        for _ in 0..3 {
            let next = self.callbacks.borrow_mut().next();
            let Some(act) = next else { break };
            if act == LAct::Nothing {
                break;
            }
            if self.perform(act) {
                self.reentered.set(self.reentered.get() + 1);
                break;
            }
        }
        self.depth.set(d);
    }
}

fn run_local<E: LEv>(case: &LCase, ev: E, keep: Box<dyn FnOnce()>, ctx: &mut Ctx) -> Verdict {
    let kind = ["local-auto-boxed", "local-auto-embedded", "local-manual-boxed", "local-manual-embedded"][usize::from(case.kind % 4)];
    let fl = |k: &str, msg: String| Failure::new(format!("C08/{kind}/{k}"), format!("{msg}; program={:?} callbacks={:?}", case.program, case.callbacks));
    let ledger = Arc::new(Ledger::default());
    let world = Rc::new(LWorld::<E> {
        ev,
        slots: RefCell::new((0..4).map(|_| None).collect()),
        busy: RefCell::new(vec![false; 4]),
        ids: RefCell::new(vec![0; 4]),
        next_id: Cell::new(0),
        callbacks: RefCell::new(case.callbacks.clone().into_iter()),
        depth: Cell::new(0),
        ledger: Arc::clone(&ledger),
        clock: Cell::new(1),
        ops: RefCell::new(Vec::new()),
        reentered: Cell::new(0),
        latest_waker: RefCell::new(std::collections::HashMap::new()),
    });
    let _ = &world.ids;
    LWORLD.with(|w| *w.borrow_mut() = Some(Rc::clone(&world) as Rc<dyn LWorldDyn>));
    let panicked = vcommon::catch(|| {
        for act in &case.program {
            world.perform(*act);
        }
    })
    .err();
    // quiescent observations (no callbacks any more)
    world.callbacks.borrow_mut().by_ref().for_each(drop);
    let mut finals = Vec::new();
    let mut final_signal = false;
    if panicked.is_none() {
        let inv = world.stamp();
        final_signal = world.ev.try_wait();
        world.record(OpKind::TryWait(final_signal), inv);
        let parked: Vec<(u8, Pin<Box<E::Wait>>)> = world.slots.borrow_mut().iter_mut().filter_map(Option::take).collect();
        for (id, mut f) in parked {
            let wk = waker(7, &ledger, false, None);
            let mut cx = Context::from_waker(&wk);
            let inv = world.stamp();
            let ready = f.as_mut().poll(&mut cx).is_ready();
            world.record(OpKind::Poll { fut: id, ready }, inv);
            let inv = world.stamp();
            drop(f);
            world.record(OpKind::Cancel { fut: id }, inv);
            finals.push((id, ready));
        }
    }
    LWORLD.with(|w| *w.borrow_mut() = None);
    ctx.classify(&format!("kind:{kind}"));
    if world.reentered.get() > 0 {
        ctx.classify("waker-reentered-event");
        ctx.nontrivial();
    }
    if let Some(m) = panicked {
        return Err(fl(&format!("panic/{}", vcommon::normalise(&m).chars().take(50).collect::<String>()), format!("the event panicked: {m}")));
    }
    let ops = world.ops.borrow().clone();
    if ops.len() > 60 {
        return Ok(());
    }
    let before = real_time_order(&ops);
    let lin = linearize_with(E::MANUAL, &ops, &before);
    if lin.is_empty() {
        let mut hist: Vec<&Op> = ops.iter().collect();
        hist.sort_by_key(|o| o.inv);
        let text: Vec<String> = hist.iter().map(|o| format!("d{}:{:?}[{}..{}]", o.task, o.kind, o.inv, o.res)).collect();
        if E::MANUAL && linearize_manual_two_point(&ops, &before) {
            return Err(fl("history/not-linearizable/set-flag-and-waiter-release-not-atomic", format!("explained only by a set() that publishes the flag and releases waiters in separate steps: {}", text.join(" "))));
        }
        if E::MANUAL && linearize_manual_two_point_opt(&ops, &before, true) {
            return Err(fl("history/not-linearizable/set-on-already-set-flag-returns-before-pending-release", format!("explained only by a set() that publishes the flag and releases waiters in separate steps, and a second (here: nested) set() that finds the flag already published and returns at once: {}", text.join(" "))));
        }
        return Err(fl("history/not-linearizable", format!("no sequential order of the (nested) calls respects their nesting and the specification: {}", text.join(" "))));
    }
    for (id, ready) in &finals {
        let lw = world.latest_waker.borrow().get(id).copied().unwrap_or(0);
        if *ready && ledger.wakes[usize::from(lw)].load(Ordering::Relaxed) == 0 {
            return Err(fl("wake/released-waiter-not-woken", format!("wait future {id} was released but its latest waker {lw} was never invoked")));
        }
        if !*ready && final_signal {
            return Err(fl("wake/signal-stored-while-waiter-registered", format!("a signal is stored while wait future {id} is still registered and pending")));
        }
    }
    let clones = ledger.waker_clones.load(Ordering::Relaxed);
    let consumed = ledger.waker_consumed.load(Ordering::Relaxed);
    drop(world);
    keep();
    if ledger.waker_double_consume.load(Ordering::Relaxed) > 0 || clones != consumed {
        return Err(fl("waker/clone-not-consumed-exactly-once", format!("{clones} waker clones made, {consumed} consumed")));
    }
    ledger.free_wakers();
    Ok(())
}

fn check_local(case: &LCase, ctx: &mut Ctx) -> Verdict {
    match case.kind % 4 {
        0 => run_local(case, LocalAutoResetEvent::boxed(), Box::new(|| {}), ctx),
        1 => {
            let place = Box::pin(EmbeddedLocalAutoResetEvent::new());
            // SAFETY: `place` outlives every reference and wait future (dropped by `keep`).
            let r = unsafe { LocalAutoResetEvent::embedded(place.as_ref()) };
            run_local(case, r, Box::new(move || drop(place)), ctx)
        }
        2 => run_local(case, LocalManualResetEvent::boxed(), Box::new(|| {}), ctx),
        _ => {
            let place = Box::pin(EmbeddedLocalManualResetEvent::new());
            // SAFETY: as above.
            let r = unsafe { LocalManualResetEvent::embedded(place.as_ref()) };
            run_local(case, r, Box::new(move || drop(place)), ctx)
        }
    }
}

fn main() {
    vsched::install_shim!(events);
    vsched::install_shim!(awaiter_set);
    let mut h = Harness::from_args("C08");
    let cases = h.cases(400_000, 16_000_000);
    h.section(
        "schedules",
        "generated program (event in {auto, manual} x {boxed, embedded}; 2..3 tasks x 1..4 ops of set, reset, try_wait, poll wait slot 0|1 with waker 0|1 (re-poll = same slot, other waker), drop wait, yield) x generated schedule bytes (every atomic op / mutex acquisition of events and awaiter_set is a scheduling point, stale loads allowed by coherence); wait futures still pending at task end stay registered and are observed by the harness after quiescence (try_wait, final poll, drop). Oracle: Wing-Gong linearizability search over the logged history under the sequential spec (auto: one stored signal, set releases one registered waiter else stores, ready wait consumes its notification or the signal, cancelling a notified wait re-issues; manual: flag, set releases all registered), released parked waiters had their latest waker invoked, no stored signal next to a registered waiter, waker clones consumed exactly once, HB race detection on waker clones. non-trivial = history with overlapping operations of different tasks including a set and a registered (pending) wait; distinct by serialised case",
        cases,
        case_strategy(),
        check,
    );
    let cases = h.cases(300_000, 8_000_000);
    h.section(
        "local-reentrant",
        "single-threaded LocalAutoResetEvent / LocalManualResetEvent (boxed, embedded): generated program of set / reset / try_wait / poll wait slot 0..3 with waker 0..2 / drop wait, plus a list of actions consumed by every wake callback the event fires (the operations the docs declare sound inside a wake callback: set, reset, try_wait, polling a fresh or other wait, dropping another in-flight wait; nesting depth <= 3). Every call, nested or not, is logged with invocation / response stamps; the history plus quiescent observations must be linearizable under the same sequential specification as the thread-safe events (nested calls overlap their caller); released parked waiters had their latest waker invoked; waker clones consumed exactly once; no panic. non-trivial = at least one wake callback performed an operation on the event; distinct by serialised case",
        cases,
        lcase_strategy(),
        check_local,
    );
    let cases = h.cases(200_000, 4_000_000);
    h.section(
        "awaiter-set",
        "generated single-threaded history on AwaiterSet with five awaiters: register / re-register (new waker) / unregister / take_notification / notify_one / advance_generation / notify_one_prior_generation / recreate awaiter, respecting the documented preconditions; model = registration-ordered list with generations; notify_one may pick any waiting awaiter (the pick policy differs between debug and release builds), prior-generation must return the head iff it is older than the current generation; the returned waker must be the latest one registered for the picked awaiter; is_empty / is_registered / is_notified equal the model after every step; wakers consumed exactly once. non-trivial = at least one notification and one generation advance; distinct by serialised case",
        cases,
        aops_strategy(),
        run_awaiter_set,
    );
    h.finish()
}
