/*
 * crashshim.so — LD_PRELOAD fault injector for C19 (engine E4 of /verif/DESIGN.md).
 *
 * Interposes the libc entry points through which std / tokio::fs mutate the file system and,
 * for paths below $CRASHSHIM_ROOT (and file descriptors opened below it), numbers every call
 * 0,1,2,...  At call number $CRASHSHIM_AT the action named by $CRASHSHIM_MODE is taken:
 *
 *   before          the call is NOT performed, the process dies            (_exit(137))
 *   after           the call is performed, then the process dies
 *   partial:N/D     write-like calls: only the first len*N/D bytes are written, then death
 *   partial:+K      write-like calls: only the first K bytes            (clamped to len)
 *   partial:-K      write-like calls: all but the last K bytes          (clamped to 0)
 *                   (for calls that carry no data `partial` behaves like `after`)
 *   pause           before the call: creates "$CRASHSHIM_SYNC.reached", then waits until
 *                   "$CRASHSHIM_SYNC.go" exists, then carries on normally (used to place a
 *                   complete foreign operation at a chosen syscall boundary of a writer)
 *
 * With no CRASHSHIM_AT the library only counts.  Every numbered call is appended to
 * $CRASHSHIM_LOG as one line "<index> <op> <len> <path1> [<path2>]" (the counting run reads
 * N = number of lines and where the temp file creation / the publishing rename are).
 *
 * Death is exit_group(137): the whole process (all tokio blocking threads) disappears at once,
 * exactly like a SIGKILL delivered at that instruction; kernel state (page cache) survives,
 * which is what "the process dies" in the property means (power loss is out of scope).
 *
 * The library's own I/O uses raw syscalls so that it never re-enters itself.
 */
#define _GNU_SOURCE
#include <dlfcn.h>
#include <errno.h>
#include <fcntl.h>
#include <stdarg.h>
#include <stdio.h>
#include <stdlib.h>
#include <string.h>
#include <sys/stat.h>
#include <sys/syscall.h>
#include <sys/types.h>
#include <time.h>
#include <unistd.h>

enum { M_COUNT = 0, M_BEFORE, M_AFTER, M_PARTIAL, M_PAUSE };
enum { P_FRAC = 0, P_HEAD, P_TAIL };

#define MAXFD 65536

static char root[4096];
static size_t root_len;
static long crash_at = -1;
static int mode = M_COUNT;
static int part_kind = P_FRAC;
static long part_a = 1, part_b = 2;
static int log_fd = -1;
static char sync_path[4096];
static long counter;
static unsigned char tracked[MAXFD];
static int ready;

static void die(void) {
    syscall(SYS_exit_group, 137);
    for (;;) {
    }
}

__attribute__((constructor)) static void shim_init(void) {
    const char *r = getenv("CRASHSHIM_ROOT");
    if (r && *r && strlen(r) < sizeof(root)) {
        strcpy(root, r);
        root_len = strlen(root);
        while (root_len > 1 && root[root_len - 1] == '/') root[--root_len] = 0;
    }
    const char *a = getenv("CRASHSHIM_AT");
    const char *m = getenv("CRASHSHIM_MODE");
    if (a && *a) crash_at = strtol(a, NULL, 10);
    if (m && crash_at >= 0) {
        if (!strcmp(m, "before")) mode = M_BEFORE;
        else if (!strcmp(m, "after")) mode = M_AFTER;
        else if (!strcmp(m, "pause")) mode = M_PAUSE;
        else if (!strncmp(m, "partial", 7)) {
            mode = M_PARTIAL;
            const char *s = m + 7;
            if (*s == ':') {
                s++;
                if (*s == '+') { part_kind = P_HEAD; part_a = strtol(s + 1, NULL, 10); }
                else if (*s == '-') { part_kind = P_TAIL; part_a = strtol(s + 1, NULL, 10); }
                else {
                    char *e = NULL;
                    part_kind = P_FRAC;
                    part_a = strtol(s, &e, 10);
                    part_b = (e && *e == '/') ? strtol(e + 1, NULL, 10) : 1;
                    if (part_b <= 0) part_b = 1;
                }
            }
        } else {
            /* an unknown mode must never silently run as "count" */
            syscall(SYS_exit_group, 99);
        }
    }
    const char *l = getenv("CRASHSHIM_LOG");
    if (l && *l)
        log_fd = (int)syscall(SYS_openat, AT_FDCWD, l, O_WRONLY | O_CREAT | O_APPEND | O_CLOEXEC, 0644);
    const char *s = getenv("CRASHSHIM_SYNC");
    if (s && strlen(s) + 16 < sizeof(sync_path)) strcpy(sync_path, s);
    __atomic_store_n(&ready, 1, __ATOMIC_RELEASE);
}

static int under(const char *p) {
    if (!p || !root_len || !__atomic_load_n(&ready, __ATOMIC_ACQUIRE)) return 0;
    if (strncmp(p, root, root_len) != 0) return 0;
    return p[root_len] == '/' || p[root_len] == 0;
}

static int fd_tracked(int fd) { return fd >= 0 && fd < MAXFD && tracked[fd]; }

/* a path given relative to a directory descriptor */
static int under_at(int dirfd, const char *p) {
    if (!p) return 0;
    if (p[0] == '/' || dirfd == AT_FDCWD) return under(p);
    return fd_tracked(dirfd);
}

static void pause_here(void) {
    char a[4200], b[4200];
    snprintf(a, sizeof a, "%s.reached", sync_path);
    snprintf(b, sizeof b, "%s.go", sync_path);
    int fd = (int)syscall(SYS_openat, AT_FDCWD, a, O_WRONLY | O_CREAT | O_CLOEXEC, 0644);
    if (fd >= 0) syscall(SYS_close, fd);
    for (long spins = 0; spins < 600000; spins++) { /* <= ~60 s, then give up and die visibly */
        if (syscall(SYS_faccessat, AT_FDCWD, b, F_OK) == 0) return;
        struct timespec ts = {0, 100000};
        syscall(SYS_nanosleep, &ts, NULL);
    }
    syscall(SYS_exit_group, 98);
}

/* Numbers the call, logs it, and says what to do with it. */
static int arrive(const char *op, const char *p1, const char *p2, long len) {
    long idx = __atomic_fetch_add(&counter, 1, __ATOMIC_SEQ_CST);
    if (log_fd >= 0) {
        char line[9000];
        int n = snprintf(line, sizeof line, "%ld %s %ld %s%s%s\n", idx, op, len, p1 ? p1 : "-", p2 ? " " : "", p2 ? p2 : "");
        if (n > 0) {
            if ((size_t)n >= sizeof line) { n = (int)sizeof line - 1; line[n - 1] = '\n'; }
            syscall(SYS_write, log_fd, line, (size_t)n);
        }
    }
    if (idx != crash_at) return M_COUNT;
    if (mode == M_PAUSE) {
        pause_here();
        return M_COUNT;
    }
    if (mode == M_BEFORE) die();
    return mode;
}

static size_t prefix_len(size_t len) {
    size_t k;
    switch (part_kind) {
    case P_HEAD: k = (size_t)part_a; break;
    case P_TAIL: k = (size_t)part_a > len ? 0 : len - (size_t)part_a; break;
    default: k = (size_t)(((__uint128_t)len * (unsigned long)part_a) / (unsigned long)part_b); break;
    }
    return k > len ? len : k;
}

#define REAL(name) \
    static __typeof__(&name) real; \
    if (!real) real = (__typeof__(&name))dlsym(RTLD_NEXT, #name)

static void track(int fd, int on) {
    if (fd >= 0 && fd < MAXFD) tracked[fd] = (unsigned char)on;
}

/* ---------------------------------------------------------------- open family */

static int needs_mode(int flags) {
#ifdef O_TMPFILE
    return (flags & O_CREAT) || ((flags & O_TMPFILE) == O_TMPFILE);
#else
    return (flags & O_CREAT);
#endif
}

static const char *open_name(int flags) {
    if ((flags & O_CREAT) && (flags & O_TRUNC)) return "open-creat-trunc";
    if (flags & O_CREAT) return "open-creat";
    if (flags & O_TRUNC) return "open-trunc";
    if (flags & O_DIRECTORY) return "open-dir";
    if ((flags & O_ACCMODE) != O_RDONLY) return "open-write";
    return "open-read";
}

int open(const char *path, int flags, ...) {
    REAL(open);
    mode_t m = 0;
    if (needs_mode(flags)) { va_list ap; va_start(ap, flags); m = (mode_t)va_arg(ap, int); va_end(ap); }
    if (!under(path)) return real(path, flags, m);
    int a = arrive(open_name(flags), path, NULL, -1);
    int fd = real(path, flags, m);
    if (a != M_COUNT) die();
    track(fd, 1);
    return fd;
}

int open64(const char *path, int flags, ...) {
    REAL(open64);
    mode_t m = 0;
    if (needs_mode(flags)) { va_list ap; va_start(ap, flags); m = (mode_t)va_arg(ap, int); va_end(ap); }
    if (!under(path)) return real(path, flags, m);
    int a = arrive(open_name(flags), path, NULL, -1);
    int fd = real(path, flags, m);
    if (a != M_COUNT) die();
    track(fd, 1);
    return fd;
}

int openat(int dirfd, const char *path, int flags, ...) {
    REAL(openat);
    mode_t m = 0;
    if (needs_mode(flags)) { va_list ap; va_start(ap, flags); m = (mode_t)va_arg(ap, int); va_end(ap); }
    if (!under_at(dirfd, path)) return real(dirfd, path, flags, m);
    int a = arrive(open_name(flags), path, NULL, -1);
    int fd = real(dirfd, path, flags, m);
    if (a != M_COUNT) die();
    track(fd, 1);
    return fd;
}

int openat64(int dirfd, const char *path, int flags, ...) {
    REAL(openat64);
    mode_t m = 0;
    if (needs_mode(flags)) { va_list ap; va_start(ap, flags); m = (mode_t)va_arg(ap, int); va_end(ap); }
    if (!under_at(dirfd, path)) return real(dirfd, path, flags, m);
    int a = arrive(open_name(flags), path, NULL, -1);
    int fd = real(dirfd, path, flags, m);
    if (a != M_COUNT) die();
    track(fd, 1);
    return fd;
}

int creat(const char *path, mode_t m) {
    REAL(creat);
    if (!under(path)) return real(path, m);
    int a = arrive("open-creat-trunc", path, NULL, -1);
    int fd = real(path, m);
    if (a != M_COUNT) die();
    track(fd, 1);
    return fd;
}

int creat64(const char *path, mode_t m) {
    REAL(creat64);
    if (!under(path)) return real(path, m);
    int a = arrive("open-creat-trunc", path, NULL, -1);
    int fd = real(path, m);
    if (a != M_COUNT) die();
    track(fd, 1);
    return fd;
}

/* ---------------------------------------------------------------- data */

ssize_t write(int fd, const void *buf, size_t count) {
    REAL(write);
    if (!fd_tracked(fd)) return real(fd, buf, count);
    int a = arrive("write", NULL, NULL, (long)count);
    if (a == M_PARTIAL) {
        size_t k = prefix_len(count), done = 0;
        while (done < k) {
            ssize_t r = real(fd, (const char *)buf + done, k - done);
            if (r <= 0) break;
            done += (size_t)r;
        }
        die();
    }
    ssize_t r = real(fd, buf, count);
    if (a != M_COUNT) die();
    return r;
}

ssize_t pwrite(int fd, const void *buf, size_t count, off_t off) {
    REAL(pwrite);
    if (!fd_tracked(fd)) return real(fd, buf, count, off);
    int a = arrive("pwrite", NULL, NULL, (long)count);
    if (a == M_PARTIAL) {
        real(fd, buf, prefix_len(count), off);
        die();
    }
    ssize_t r = real(fd, buf, count, off);
    if (a != M_COUNT) die();
    return r;
}

ssize_t pwrite64(int fd, const void *buf, size_t count, off64_t off) {
    REAL(pwrite64);
    if (!fd_tracked(fd)) return real(fd, buf, count, off);
    int a = arrive("pwrite", NULL, NULL, (long)count);
    if (a == M_PARTIAL) {
        real(fd, buf, prefix_len(count), off);
        die();
    }
    ssize_t r = real(fd, buf, count, off);
    if (a != M_COUNT) die();
    return r;
}

#include <sys/uio.h>
ssize_t writev(int fd, const struct iovec *iov, int iovcnt) {
    REAL(writev);
    if (!fd_tracked(fd)) return real(fd, iov, iovcnt);
    size_t total = 0;
    for (int i = 0; i < iovcnt; i++) total += iov[i].iov_len;
    int a = arrive("write", NULL, NULL, (long)total);
    if (a == M_PARTIAL) {
        size_t k = prefix_len(total);
        for (int i = 0; i < iovcnt && k > 0; i++) {
            size_t n = iov[i].iov_len < k ? iov[i].iov_len : k;
            syscall(SYS_write, fd, iov[i].iov_base, n);
            k -= n;
        }
        die();
    }
    ssize_t r = real(fd, iov, iovcnt);
    if (a != M_COUNT) die();
    return r;
}

int ftruncate(int fd, off_t len) {
    REAL(ftruncate);
    if (!fd_tracked(fd)) return real(fd, len);
    int a = arrive("ftruncate", NULL, NULL, (long)len);
    int r = real(fd, len);
    if (a != M_COUNT) die();
    return r;
}

int ftruncate64(int fd, off64_t len) {
    REAL(ftruncate64);
    if (!fd_tracked(fd)) return real(fd, len);
    int a = arrive("ftruncate", NULL, NULL, (long)len);
    int r = real(fd, len);
    if (a != M_COUNT) die();
    return r;
}

int fsync(int fd) {
    REAL(fsync);
    if (!fd_tracked(fd)) return real(fd);
    int a = arrive("fsync", NULL, NULL, -1);
    int r = real(fd);
    if (a != M_COUNT) die();
    return r;
}

int fdatasync(int fd) {
    REAL(fdatasync);
    if (!fd_tracked(fd)) return real(fd);
    int a = arrive("fdatasync", NULL, NULL, -1);
    int r = real(fd);
    if (a != M_COUNT) die();
    return r;
}

int close(int fd) {
    REAL(close);
    if (!fd_tracked(fd)) return real(fd);
    int a = arrive("close", NULL, NULL, -1);
    track(fd, 0);
    int r = real(fd);
    if (a != M_COUNT) die();
    return r;
}

/* ---------------------------------------------------------------- names */

int rename(const char *o, const char *n) {
    REAL(rename);
    if (!under(o) && !under(n)) return real(o, n);
    int a = arrive("rename", o, n, -1);
    int r = real(o, n);
    if (a != M_COUNT) die();
    return r;
}

int renameat(int od, const char *o, int nd, const char *n) {
    REAL(renameat);
    if (!under_at(od, o) && !under_at(nd, n)) return real(od, o, nd, n);
    int a = arrive("rename", o, n, -1);
    int r = real(od, o, nd, n);
    if (a != M_COUNT) die();
    return r;
}

int renameat2(int od, const char *o, int nd, const char *n, unsigned int flags) {
    REAL(renameat2);
    if (!under_at(od, o) && !under_at(nd, n)) return real(od, o, nd, n, flags);
    int a = arrive("rename", o, n, -1);
    int r = real(od, o, nd, n, flags);
    if (a != M_COUNT) die();
    return r;
}

int link(const char *o, const char *n) {
    REAL(link);
    if (!under(o) && !under(n)) return real(o, n);
    int a = arrive("link", o, n, -1);
    int r = real(o, n);
    if (a != M_COUNT) die();
    return r;
}

int linkat(int od, const char *o, int nd, const char *n, int flags) {
    REAL(linkat);
    if (!under_at(od, o) && !under_at(nd, n)) return real(od, o, nd, n, flags);
    int a = arrive("link", o, n, -1);
    int r = real(od, o, nd, n, flags);
    if (a != M_COUNT) die();
    return r;
}

int mkdir(const char *p, mode_t m) {
    REAL(mkdir);
    if (!under(p)) return real(p, m);
    int a = arrive("mkdir", p, NULL, -1);
    int r = real(p, m);
    if (a != M_COUNT) die();
    return r;
}

int mkdirat(int d, const char *p, mode_t m) {
    REAL(mkdirat);
    if (!under_at(d, p)) return real(d, p, m);
    int a = arrive("mkdir", p, NULL, -1);
    int r = real(d, p, m);
    if (a != M_COUNT) die();
    return r;
}

int unlink(const char *p) {
    REAL(unlink);
    if (!under(p)) return real(p);
    int a = arrive("unlink", p, NULL, -1);
    int r = real(p);
    if (a != M_COUNT) die();
    return r;
}

int unlinkat(int d, const char *p, int flags) {
    REAL(unlinkat);
    if (!under_at(d, p)) return real(d, p, flags);
    int a = arrive("unlink", p, NULL, -1);
    int r = real(d, p, flags);
    if (a != M_COUNT) die();
    return r;
}

int rmdir(const char *p) {
    REAL(rmdir);
    if (!under(p)) return real(p);
    int a = arrive("rmdir", p, NULL, -1);
    int r = real(p);
    if (a != M_COUNT) die();
    return r;
}
