//! Shared driver for all property harnesses: proptest `TestRunner` wrapper with case
//! classification, distinct-case hashing, known-finding matching, replay files and a
//! per-shard evidence fragment that `/verif/check` merges.
//!
//! Every random choice comes from proptest (seeded from `--seed`/`--shard`/section name);
//! nothing here reads the clock for anything but `wall_s` and optional time budgets.

pub mod crash;
pub mod worker;

use std::collections::{BTreeMap, HashSet};
use std::fmt::Debug;
use std::hash::{Hash, Hasher};
use std::panic::{AssertUnwindSafe, catch_unwind};
use std::path::{Path, PathBuf};
use std::sync::atomic::{AtomicBool, Ordering};
use std::time::Instant;

pub use proptest;
use proptest::strategy::Strategy;
use proptest::test_runner::{Config, RngAlgorithm, RngSeed, TestCaseError, TestError, TestRunner};
pub use serde;
use serde::Serialize;
use serde::de::DeserializeOwned;
pub use serde_json;
use serde_json::{Value, json};

/// An oracle failure. `signature` identifies root cause (property / component / failure kind /
/// normalised trigger) and is what `known_findings.jsonl` is keyed by.
#[derive(Debug, Clone)]
pub struct Failure {
    pub signature: String,
    pub message: String,
}

impl Failure {
    pub fn new(signature: impl Into<String>, message: impl Into<String>) -> Self {
        Self {
            signature: signature.into(),
            message: message.into(),
        }
    }
}

pub type Verdict = Result<(), Failure>;

#[macro_export]
macro_rules! fail {
    ($sig:expr, $($arg:tt)*) => {
        return Err($crate::Failure::new($sig, format!($($arg)*)))
    };
}

#[macro_export]
macro_rules! ensure {
    ($cond:expr, $sig:expr, $($arg:tt)*) => {
        if !($cond) {
            return Err($crate::Failure::new($sig, format!($($arg)*)));
        }
    };
}

/// Per-case context handed to the oracle closure.
#[derive(Default)]
pub struct Ctx {
    classes: Vec<String>,
    nontrivial: bool,
    /// Known-finding signatures the oracle tolerated inside this case while continuing.
    tolerated: Vec<String>,
    known_open: Vec<String>,
    extra_key: Option<u64>,
}

impl Ctx {
    /// Adds the case to a named class of the distribution report.
    pub fn classify(&mut self, label: &str) {
        if !self.classes.iter().any(|c| c == label) {
            self.classes.push(label.to_string());
        }
    }

    /// Marks the case non-trivial by the property's stated rule.
    pub fn nontrivial(&mut self) {
        self.nontrivial = true;
    }

    /// Overrides the hash used for distinctness (default: the serialised case).
    pub fn distinct_key(&mut self, key: impl Hash) {
        let mut h = std::collections::hash_map::DefaultHasher::new();
        key.hash(&mut h);
        self.extra_key = Some(h.finish());
    }

    /// True if `signature` is an open known finding; if so the hit is counted and the oracle
    /// may continue checking everything else in this case.
    pub fn tolerate(&mut self, signature: &str) -> bool {
        if self.known_open.iter().any(|s| s == signature) {
            self.tolerated.push(signature.to_string());
            true
        } else {
            false
        }
    }

    pub fn is_known_open(&self, signature: &str) -> bool {
        self.known_open.iter().any(|s| s == signature)
    }
}

#[derive(Clone, Copy, PartialEq, Eq, Debug)]
pub enum Tier {
    Quick,
    Thorough,
}

#[derive(Debug, Clone)]
struct Known {
    status: String,
    property: String,
    signature: String,
    what: String,
}

#[derive(Default)]
struct SectionStats {
    evaluations: u64,
    nontrivial_evaluations: u64,
    classes: BTreeMap<String, u64>,
    samples: Vec<Value>,
    exhaustive: bool,
    budget_exhausted: bool,
    excluded_known: u64,
    rule: String,
    wall_s: f64,
}

pub struct Harness {
    pub property: String,
    pub tier: Tier,
    pub seed: u64,
    pub shard: u32,
    pub nshards: u32,
    out: Option<PathBuf>,
    replay: Option<PathBuf>,
    only_section: Option<String>,
    verif_root: PathBuf,
    known: Vec<Known>,
    known_hits: BTreeMap<String, u64>,
    sections: BTreeMap<String, SectionStats>,
    distinct: HashSet<u64>,
    violations: Vec<Value>,
    replay_matched: bool,
    start: Instant,
    deadline: Option<Instant>,
    notes: BTreeMap<String, Value>,
    infra_error: bool,
}

static QUIET: AtomicBool = AtomicBool::new(true);

fn install_quiet_hook() {
    if std::env::var_os("VERIF_VERBOSE").is_some() {
        QUIET.store(false, Ordering::Relaxed);
    }
    let prev = std::panic::take_hook();
    std::panic::set_hook(Box::new(move |info| {
        if !QUIET.load(Ordering::Relaxed) {
            prev(info);
        }
    }));
}

pub fn panic_message(p: &(dyn std::any::Any + Send)) -> String {
    if let Some(s) = p.downcast_ref::<&'static str>() {
        (*s).to_string()
    } else if let Some(s) = p.downcast_ref::<String>() {
        s.clone()
    } else {
        "<non-string panic payload>".to_string()
    }
}

/// Collapses digits / hex addresses so that a panic message can be part of a signature.
pub fn normalise(msg: &str) -> String {
    let mut out = String::new();
    let mut last_hash = false;
    for ch in msg.chars().take(160) {
        if ch.is_ascii_digit() {
            if !last_hash {
                out.push('#');
                last_hash = true;
            }
        } else {
            last_hash = false;
            out.push(if ch == '\n' { ' ' } else { ch });
        }
    }
    out
}

fn hash64(x: impl Hash) -> u64 {
    let mut h = std::collections::hash_map::DefaultHasher::new();
    x.hash(&mut h);
    h.finish()
}

fn fnv(s: &str) -> u64 {
    let mut h: u64 = 0xcbf29ce484222325;
    for b in s.bytes() {
        h ^= u64::from(b);
        h = h.wrapping_mul(0x100000001b3);
    }
    h
}

impl Harness {
    /// Parses `--property --tier --seed --shard --nshards --out --replay --section --budget-s`.
    pub fn from_args(default_property: &str) -> Self {
        install_quiet_hook();
        crash::install();
        let args: Vec<String> = std::env::args().collect();
        let get = |k: &str| -> Option<String> {
            args.iter()
                .position(|a| a == k)
                .and_then(|i| args.get(i + 1).cloned())
        };
        let tier = match get("--tier")
            .or_else(|| std::env::var("VERIF_TIER").ok())
            .as_deref()
        {
            Some("thorough") => Tier::Thorough,
            _ => Tier::Quick,
        };
        let seed = get("--seed")
            .or_else(|| std::env::var("VERIF_SEED").ok())
            .and_then(|s| s.parse::<u64>().ok())
            .unwrap_or(20260923);
        let verif_root = PathBuf::from(
            std::env::var("VERIF_ROOT").unwrap_or_else(|_| "/verif".to_string()),
        );
        let property = get("--property").unwrap_or_else(|| default_property.to_string());
        let mut h = Self {
            property,
            tier,
            seed,
            shard: get("--shard").and_then(|s| s.parse().ok()).unwrap_or(0),
            nshards: get("--nshards")
                .and_then(|s| s.parse().ok())
                .unwrap_or(1)
                .max(1),
            out: get("--out").map(PathBuf::from),
            replay: get("--replay").map(PathBuf::from),
            only_section: get("--section"),
            verif_root,
            known: Vec::new(),
            known_hits: BTreeMap::new(),
            sections: BTreeMap::new(),
            distinct: HashSet::new(),
            violations: Vec::new(),
            replay_matched: false,
            start: Instant::now(),
            deadline: None,
            notes: BTreeMap::new(),
            infra_error: false,
        };
        if let Some(b) = get("--budget-s").and_then(|s| s.parse::<f64>().ok()) {
            h.deadline = Some(Instant::now() + std::time::Duration::from_secs_f64(b));
        }
        h.load_known();
        h
    }

    fn load_known(&mut self) {
        let p = self.verif_root.join("known_findings.jsonl");
        let Ok(text) = std::fs::read_to_string(&p) else {
            return;
        };
        for line in text.lines() {
            let line = line.trim();
            if line.is_empty() || line.starts_with('#') {
                continue;
            }
            let Ok(v) = serde_json::from_str::<Value>(line) else {
                continue;
            };
            let s = |k: &str| v.get(k).and_then(Value::as_str).unwrap_or("").to_string();
            self.known.push(Known {
                status: s("status"),
                property: s("property"),
                signature: s("signature"),
                what: s("what"),
            });
        }
    }

    pub fn is_thorough(&self) -> bool {
        self.tier == Tier::Thorough
    }

    pub fn is_replay(&self) -> bool {
        self.replay.is_some()
    }

    /// Number of cases for this shard given whole-run totals for the two tiers.
    pub fn cases(&self, quick_total: u64, thorough_total: u64) -> u32 {
        let t = if self.is_thorough() {
            thorough_total
        } else {
            quick_total
        };
        let per = t.div_ceil(u64::from(self.nshards));
        u32::try_from(per.max(1)).unwrap_or(u32::MAX)
    }

    pub fn pick<T>(&self, quick: T, thorough: T) -> T {
        if self.is_thorough() { thorough } else { quick }
    }

    pub fn note(&mut self, key: &str, v: Value) {
        self.notes.insert(key.to_string(), v);
    }

    fn open_signatures(&self) -> Vec<String> {
        self.known
            .iter()
            .filter(|k| k.status == "open" && k.property == self.property)
            .map(|k| k.signature.clone())
            .collect()
    }

    /// True when the failure matches an open known finding of this property (exact signature).
    fn match_known(&mut self, sig: &str) -> bool {
        let hit = self
            .known
            .iter()
            .any(|k| k.status == "open" && k.property == self.property && k.signature == sig);
        if hit {
            *self.known_hits.entry(sig.to_string()).or_insert(0) += 1;
        }
        hit
    }

    fn section_enabled(&self, name: &str) -> bool {
        self.only_section.as_deref().is_none_or(|s| s == name)
    }

    fn run_one<V: Serialize>(
        &mut self,
        section: &str,
        case: &V,
        f: &mut dyn FnMut(&V, &mut Ctx) -> Verdict,
        count: bool,
    ) -> Verdict {
        let mut ctx = Ctx {
            known_open: self.open_signatures(),
            ..Ctx::default()
        };
        crash::set_current(&self.property, section, case);
        let res = catch_unwind(AssertUnwindSafe(|| f(case, &mut ctx)));
        crash::clear_current();
        let verdict = match res {
            Ok(v) => v,
            Err(p) => Err(Failure::new(
                format!(
                    "{}/{}/harness-panic/{}",
                    self.property,
                    section,
                    normalise(&panic_message(&*p))
                ),
                format!("uncaught panic: {}", panic_message(&*p)),
            )),
        };
        for t in std::mem::take(&mut ctx.tolerated) {
            if count {
                *self.known_hits.entry(t).or_insert(0) += 1;
            }
        }
        let verdict = match verdict {
            Err(f) if !f.signature.starts_with(&format!("{}/", self.property)) => {
                // A failure attributed to another property sharing this binary: not ours.
                let _ = f;
                Ok(())
            }
            Err(f) => {
                if self.match_known(&f.signature) {
                    if count {
                        let st = self.sections.entry(section.to_string()).or_default();
                        st.excluded_known += 1;
                    }
                    Ok(())
                } else {
                    Err(f)
                }
            }
            Ok(()) => Ok(()),
        };
        if count {
            let js = serde_json::to_value(case).unwrap_or(Value::Null);
            let key = ctx
                .extra_key
                .unwrap_or_else(|| hash64((section, js.to_string())));
            let st = self.sections.entry(section.to_string()).or_default();
            st.evaluations += 1;
            for c in &ctx.classes {
                *st.classes.entry(c.clone()).or_insert(0) += 1;
            }
            if ctx.nontrivial {
                st.nontrivial_evaluations += 1;
                let fresh = self.distinct.insert(key);
                let n = st.nontrivial_evaluations;
                // first, then power-of-two positions: a spread of early and late cases
                if fresh && n.is_power_of_two() && st.samples.len() < 6 {
                    let s = js.to_string();
                    if s.len() <= 6000 {
                        st.samples.push(json!({"section": section, "classes": ctx.classes, "case": js}));
                    }
                }
            }
        }
        verdict
    }

    /// Runs `cases` generated cases of `strategy` through oracle `f`; on an unlisted failure the
    /// case is shrunk and written as a replay file.
    pub fn section<S, F>(&mut self, name: &str, rule: &str, cases: u32, strategy: S, mut f: F)
    where
        S: Strategy,
        S::Value: Serialize + DeserializeOwned + Debug + Clone,
        F: FnMut(&S::Value, &mut Ctx) -> Verdict,
    {
        if !self.section_enabled(name) {
            return;
        }
        if let Some(path) = self.replay.clone() {
            self.replay_section::<S::Value>(name, &path, &mut f);
            return;
        }
        self.sections.entry(name.to_string()).or_default().rule = rule.to_string();
        let t0 = Instant::now();
        // committed regression replays first
        self.run_committed_replays::<S::Value>(name, &mut f);

        let seed = self.seed ^ fnv(name) ^ (u64::from(self.shard).wrapping_mul(0x9E3779B97F4A7C15));
        let mut seed_bytes = [0u8; 32];
        for (i, chunk) in seed_bytes.chunks_mut(8).enumerate() {
            chunk.copy_from_slice(
                &(seed.wrapping_add((i as u64).wrapping_mul(0xD1B54A32D192ED03)))
                    .to_le_bytes(),
            );
        }
        let config = Config {
            cases,
            failure_persistence: None,
            rng_algorithm: RngAlgorithm::ChaCha,
            rng_seed: RngSeed::Fixed(seed),
            max_shrink_iters: 4000,
            max_global_rejects: 65536,
            ..Config::default()
        };
        let _ = seed_bytes;
        let mut runner = TestRunner::new(config);
        let failed = std::cell::Cell::new(false);
        let last_failure: std::cell::RefCell<Option<Failure>> = std::cell::RefCell::new(None);
        let deadline = self.deadline;
        let budget_hit = std::cell::Cell::new(false);
        let this = std::cell::RefCell::new(&mut *self);
        let fcell = std::cell::RefCell::new(&mut f);
        let result = runner.run(&strategy, |case| {
            if !failed.get() {
                if let Some(d) = deadline {
                    if Instant::now() > d {
                        budget_hit.set(true);
                        return Ok(());
                    }
                }
            }
            let mut this = this.borrow_mut();
            let mut fm = fcell.borrow_mut();
            let v = this.run_one(name, &case, &mut **fm, !failed.get());
            match v {
                Ok(()) => Ok(()),
                Err(fl) => {
                    failed.set(true);
                    let msg = fl.message.clone();
                    *last_failure.borrow_mut() = Some(fl);
                    Err(TestCaseError::fail(msg))
                }
            }
        });
        drop(this);
        drop(fcell);
        let st = self.sections.entry(name.to_string()).or_default();
        st.wall_s += t0.elapsed().as_secs_f64();
        st.budget_exhausted |= budget_hit.get();
        match result {
            Ok(()) => {}
            Err(TestError::Fail(_, minimal)) => {
                // re-run the minimal case once to get its own signature/message
                let fl = {
                    let r = self.run_one(name, &minimal, &mut f, false);
                    match r {
                        Err(fl) => fl,
                        Ok(()) => last_failure.borrow().clone().unwrap_or_else(|| {
                            Failure::new(
                                format!("{}/{}/unreproducible", self.property, name),
                                "failure did not reproduce on the shrunk case",
                            )
                        }),
                    }
                };
                self.record_violation(name, &minimal, &fl);
            }
            Err(TestError::Abort(reason)) => {
                self.note(
                    &format!("{name}.aborted"),
                    json!(format!("generator aborted: {reason}")),
                );
                self.infra_error = true;
            }
        }
    }

    /// Runs a finite, completely enumerated space through oracle `f`.
    pub fn enumerate<V, I, F>(&mut self, name: &str, rule: &str, items: I, mut f: F)
    where
        V: Serialize + DeserializeOwned + Debug + Clone,
        I: IntoIterator<Item = V>,
        F: FnMut(&V, &mut Ctx) -> Verdict,
    {
        if !self.section_enabled(name) {
            return;
        }
        if let Some(path) = self.replay.clone() {
            self.replay_section::<V>(name, &path, &mut f);
            return;
        }
        {
            let st = self.sections.entry(name.to_string()).or_default();
            st.rule = rule.to_string();
        }
        let t0 = Instant::now();
        self.run_committed_replays::<V>(name, &mut f);
        let mut complete = true;
        let mut failures = 0u32;
        for (i, item) in items.into_iter().enumerate() {
            // shards split the enumeration round-robin
            if (i as u64) % u64::from(self.nshards) != u64::from(self.shard) {
                continue;
            }
            if let Some(d) = self.deadline {
                if Instant::now() > d {
                    complete = false;
                    self.sections.entry(name.to_string()).or_default().budget_exhausted = true;
                    break;
                }
            }
            if let Err(fl) = self.run_one(name, &item, &mut f, true) {
                self.record_violation(name, &item, &fl);
                failures += 1;
                if failures >= 3 {
                    complete = false;
                    break;
                }
            }
        }
        let st = self.sections.entry(name.to_string()).or_default();
        st.exhaustive = complete;
        st.wall_s += t0.elapsed().as_secs_f64();
    }

    fn run_committed_replays<V>(&mut self, name: &str, f: &mut dyn FnMut(&V, &mut Ctx) -> Verdict)
    where
        V: Serialize + DeserializeOwned,
    {
        if self.shard != 0 {
            return;
        }
        let dir = self.verif_root.join("replays").join(&self.property);
        let Ok(rd) = std::fs::read_dir(&dir) else {
            return;
        };
        let mut files: Vec<PathBuf> = rd.filter_map(|e| e.ok().map(|e| e.path())).collect();
        files.sort();
        for p in files {
            let Ok(text) = std::fs::read_to_string(&p) else {
                continue;
            };
            let Ok(v) = serde_json::from_str::<Value>(&text) else {
                continue;
            };
            if v.get("section").and_then(Value::as_str) != Some(name) {
                continue;
            }
            let Some(case) = v.get("case") else { continue };
            let Ok(case) = serde_json::from_value::<V>(case.clone()) else {
                self.note(
                    &format!("replay-skipped:{}", p.display()),
                    json!("case no longer deserialises"),
                );
                continue;
            };
            let r = self.run_one(name, &case, f, true);
            let st = self.sections.entry(name.to_string()).or_default();
            *st.classes.entry("committed-replay".into()).or_insert(0) += 1;
            if let Err(fl) = r {
                self.violations.push(json!({
                    "section": name, "signature": fl.signature, "message": fl.message,
                    "replay": p.display().to_string(),
                }));
            }
        }
    }

    fn replay_section<V>(
        &mut self,
        name: &str,
        path: &Path,
        f: &mut dyn FnMut(&V, &mut Ctx) -> Verdict,
    ) where
        V: Serialize + DeserializeOwned,
    {
        let text = match std::fs::read_to_string(path) {
            Ok(t) => t,
            Err(e) => {
                eprintln!("cannot read replay {}: {e}", path.display());
                std::process::exit(2);
            }
        };
        let v: Value = serde_json::from_str(&text).unwrap_or(Value::Null);
        if v.get("section").and_then(Value::as_str) != Some(name) {
            return;
        }
        self.replay_matched = true;
        let case: V = match serde_json::from_value(v.get("case").cloned().unwrap_or(Value::Null)) {
            Ok(c) => c,
            Err(e) => {
                eprintln!("replay case does not deserialise: {e}");
                std::process::exit(2);
            }
        };
        match self.run_one(name, &case, f, true) {
            Ok(()) => println!("REPLAY-PASS section={name}"),
            Err(fl) => {
                println!("REPLAY-FAIL section={name} signature={} :: {}", fl.signature, fl.message);
                self.violations.push(json!({
                    "section": name, "signature": fl.signature, "message": fl.message,
                    "replay": path.display().to_string(),
                }));
            }
        }
    }

    fn record_violation<V: Serialize>(&mut self, section: &str, case: &V, fl: &Failure) {
        let dir = self.verif_root.join("violations").join(&self.property);
        let _ = std::fs::create_dir_all(&dir);
        let file = dir.join(format!(
            "{}-{:016x}.json",
            section.replace('/', "_"),
            fnv(&fl.signature)
        ));
        let body = json!({
            "property": self.property,
            "section": section,
            "signature": fl.signature,
            "message": fl.message,
            "seed": self.seed,
            "case": case,
        });
        let _ = std::fs::write(&file, serde_json::to_string_pretty(&body).unwrap_or_default());
        self.violations.push(json!({
            "section": section, "signature": fl.signature, "message": fl.message,
            "replay": file.display().to_string(),
        }));
    }

    /// Records a violation found by machinery outside `section`/`enumerate`.
    pub fn report_failure<V: Serialize>(&mut self, section: &str, case: &V, fl: &Failure) {
        if self.match_known(&fl.signature) {
            let st = self.sections.entry(section.to_string()).or_default();
            st.excluded_known += 1;
            return;
        }
        self.record_violation(section, case, fl);
    }

    /// Writes the shard's evidence fragment, prints VIOLATION / KNOWN-FINDING lines and exits.
    pub fn finish(self) -> ! {
        if self.is_replay() && !self.replay_matched {
            eprintln!("replay file names a section this binary does not have");
            std::process::exit(2);
        }
        let mut evaluations = 0;
        let mut sections = serde_json::Map::new();
        for (name, st) in &self.sections {
            evaluations += st.evaluations;
            sections.insert(
                name.clone(),
                json!({
                    "evaluations": st.evaluations,
                    "nontrivial_evaluations": st.nontrivial_evaluations,
                    "classes": st.classes,
                    "samples": st.samples,
                    "exhaustive": st.exhaustive,
                    "budget_exhausted": st.budget_exhausted,
                    "excluded_known": st.excluded_known,
                    "rule": st.rule,
                    "wall_s": st.wall_s,
                }),
            );
        }
        let known_lines: Vec<Value> = self
            .known_hits
            .iter()
            .map(|(sig, n)| {
                let what = self
                    .known
                    .iter()
                    .find(|k| &k.signature == sig)
                    .map(|k| k.what.clone())
                    .unwrap_or_default();
                json!({"signature": sig, "hits": n, "what": what})
            })
            .collect();
        let mut distinct: Vec<u64> = self.distinct.iter().copied().collect();
        distinct.sort_unstable();
        let frag = json!({
            "property": self.property,
            "tier": if self.is_thorough() {"thorough"} else {"quick"},
            "seed": self.seed,
            "shard": self.shard,
            "nshards": self.nshards,
            "evaluations": evaluations,
            "distinct_hashes": distinct.iter().map(|h| format!("{h:016x}")).collect::<Vec<_>>(),
            "sections": sections,
            "violations": self.violations,
            "known_hits": known_lines,
            "notes": self.notes,
            "wall_s": self.start.elapsed().as_secs_f64(),
        });
        if let Some(out) = &self.out {
            if let Some(parent) = out.parent() {
                let _ = std::fs::create_dir_all(parent);
            }
            if let Err(e) = std::fs::write(out, serde_json::to_string(&frag).unwrap_or_default()) {
                eprintln!("cannot write {}: {e}", out.display());
                std::process::exit(2);
            }
        } else if !self.is_replay() {
            println!(
                "evaluations={} distinct_nontrivial={} violations={}",
                evaluations,
                distinct.len(),
                self.violations.len()
            );
        }
        for k in &known_lines {
            println!(
                "KNOWN-FINDING: property={} {} [{}] hits={}",
                self.property,
                k["what"].as_str().unwrap_or(""),
                k["signature"].as_str().unwrap_or(""),
                k["hits"]
            );
        }
        for v in &self.violations {
            println!(
                "VIOLATION property={} replay={} signature={} :: {}",
                self.property,
                v["replay"].as_str().unwrap_or(""),
                v["signature"].as_str().unwrap_or(""),
                v["message"].as_str().unwrap_or("").replace('\n', " ")
            );
        }
        use std::io::Write;
        let _ = std::io::stdout().flush();
        // Leaked threads of a failed case must not keep the process alive.
        let code = if !self.violations.is_empty() {
            1
        } else if self.infra_error {
            eprintln!("infrastructure error: {:?}", self.notes);
            2
        } else {
            0
        };
        unsafe { libc::_exit(code) }
    }
}

/// Monotone index mapping for shrinking-friendly selection from a collection.
pub fn pick_index(raw: u16, len: usize) -> usize {
    if len == 0 {
        return 0;
    }
    ((raw as usize) * len) >> 16
}

/// Runs `f`, converting a panic into `Err(message)`.
pub fn catch<R>(f: impl FnOnce() -> R) -> Result<R, String> {
    catch_unwind(AssertUnwindSafe(f)).map_err(|p| panic_message(&*p))
}
