//! Fatal-signal capture: when the code under test corrupts memory badly enough to kill the
//! process (SIGSEGV, SIGABRT from the allocator's double-free detection, SIGBUS, SIGILL), the
//! case being executed is written out as a replay file and reported as a violation instead of
//! being lost with the process.

use std::sync::atomic::{AtomicI32, AtomicPtr, Ordering};

use serde::Serialize;

struct Cur {
    case: Box<[u8]>,
    /// NUL-terminated
    path: Box<[u8]>,
    line: Box<[u8]>,
}

static CUR: AtomicPtr<Cur> = AtomicPtr::new(std::ptr::null_mut());
static ACTIVE: AtomicI32 = AtomicI32::new(0);
static DIR_DONE: std::sync::atomic::AtomicBool = std::sync::atomic::AtomicBool::new(false);

/// Records the case about to run (pre-serialised so that the signal handler only has to write).
pub fn set_current<V: Serialize>(property: &str, section: &str, case: &V) {
    let root = std::env::var("VERIF_ROOT").unwrap_or_else(|_| "/verif".to_string());
    let dir = format!("{root}/violations/{property}");
    if !DIR_DONE.swap(true, Ordering::SeqCst) {
        let _ = std::fs::create_dir_all(&dir);
    }
    let path = format!("{dir}/{}-crash-{}.json", section.replace('/', "_"), std::process::id());
    let body = serde_json::json!({
        "property": property,
        "section": section,
        "signature": format!("{property}/{section}/crash/fatal-signal"),
        "message": "the process was killed by a fatal signal while executing this case",
        "case": case,
    })
    .to_string();
    let line = format!(
        "VIOLATION property={property} replay={path} signature={property}/{section}/crash/fatal-signal :: the process received a fatal signal (memory corruption?) while executing this case\n"
    );
    let mut path_z = path.into_bytes();
    path_z.push(0);
    let cur = Box::into_raw(Box::new(Cur {
        case: body.into_bytes().into_boxed_slice(),
        path: path_z.into_boxed_slice(),
        line: line.into_bytes().into_boxed_slice(),
    }));
    ACTIVE.store(0, Ordering::SeqCst);
    let old = CUR.swap(cur, Ordering::SeqCst);
    ACTIVE.store(1, Ordering::SeqCst);
    if !old.is_null() {
        // SAFETY: created by Box::into_raw above; the handler only reads CUR while ACTIVE == 1.
        drop(unsafe { Box::from_raw(old) });
    }
}

pub fn clear_current() {
    ACTIVE.store(0, Ordering::SeqCst);
}

extern "C" fn handler(sig: libc::c_int) {
    if ACTIVE.swap(0, Ordering::SeqCst) == 1 {
        let cur = CUR.load(Ordering::SeqCst);
        if !cur.is_null() {
            // SAFETY: only async-signal-safe calls on buffers that stay allocated while ACTIVE.
            unsafe {
                let cur = &*cur;
                let fd = libc::open(cur.path.as_ptr().cast::<libc::c_char>(), libc::O_WRONLY | libc::O_CREAT | libc::O_TRUNC, 0o644);
                if fd >= 0 {
                    let _ = libc::write(fd, cur.case.as_ptr().cast::<libc::c_void>(), cur.case.len());
                    let _ = libc::close(fd);
                }
                let _ = libc::write(1, cur.line.as_ptr().cast::<libc::c_void>(), cur.line.len());
                libc::_exit(1);
            }
        }
    }
    // not inside a case: die with the original signal
    // SAFETY: restoring the default disposition and re-raising is async-signal-safe.
    unsafe {
        libc::signal(sig, libc::SIG_DFL);
        libc::raise(sig);
    }
}

pub fn install() {
    if let Ok(root) = std::env::var("VERIF_ROOT").or_else(|_| Ok::<_, ()>("/verif".to_string())) {
        let _ = std::fs::create_dir_all(format!("{root}/violations"));
    }
    // an alternate stack so that stack overflows can be reported too
    const ALT: usize = 1 << 16;
    let stack = Box::leak(vec![0u8; ALT].into_boxed_slice());
    // SAFETY: plain libc signal setup with valid arguments.
    unsafe {
        let ss = libc::stack_t {
            ss_sp: stack.as_mut_ptr().cast::<libc::c_void>(),
            ss_flags: 0,
            ss_size: ALT,
        };
        libc::sigaltstack(&raw const ss, std::ptr::null_mut());
        for sig in [libc::SIGSEGV, libc::SIGABRT, libc::SIGBUS, libc::SIGILL] {
            let mut sa: libc::sigaction = std::mem::zeroed();
            sa.sa_sigaction = handler as *const () as usize;
            sa.sa_flags = libc::SA_ONSTACK;
            libc::sigemptyset(&raw mut sa.sa_mask);
            libc::sigaction(sig, &raw const sa, std::ptr::null_mut());
        }
    }
}
