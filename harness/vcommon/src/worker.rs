//! Child-process case runner (engine E3): cases whose oracle is "terminates" or that may leak
//! threads / abort the process run in a re-executed copy of the harness binary.

use std::io::{BufRead, BufReader, Write};
use std::process::{Child, ChildStdin, Command, Stdio};
use std::sync::mpsc::{Receiver, RecvTimeoutError, channel};
use std::time::Duration;

pub enum Reply {
    Line(String),
    Timeout,
    Died(String),
}

pub struct Worker {
    child: Child,
    stdin: Option<ChildStdin>,
    rx: Receiver<String>,
    name: String,
    envs: Vec<(String, String)>,
}

impl Worker {
    pub fn spawn(name: &str) -> Self {
        Self::spawn_env(name, &[])
    }

    pub fn spawn_env(name: &str, envs: &[(String, String)]) -> Self {
        let exe = std::env::current_exe().expect("current_exe");
        let mut cmd = Command::new(exe);
        cmd.arg("--worker")
            .arg(name)
            .stdin(Stdio::piped())
            .stdout(Stdio::piped())
            .stderr(Stdio::null());
        for (k, v) in envs {
            cmd.env(k, v);
        }
        let mut child = cmd.spawn().expect("spawn worker");
        let stdin = child.stdin.take();
        let stdout = child.stdout.take().expect("stdout");
        let (tx, rx) = channel();
        std::thread::spawn(move || {
            let r = BufReader::new(stdout);
            for line in r.lines() {
                let Ok(line) = line else { break };
                if let Some(rest) = line.strip_prefix("@@") {
                    if tx.send(rest.to_string()).is_err() {
                        break;
                    }
                }
            }
        });
        Self {
            child,
            stdin,
            rx,
            name: name.to_string(),
            envs: envs.to_vec(),
        }
    }

    pub fn restart(&mut self) {
        self.kill();
        *self = Self::spawn_env(&self.name.clone(), &self.envs.clone());
    }

    pub fn kill(&mut self) {
        self.stdin = None;
        let _ = self.child.kill();
        let _ = self.child.wait();
    }

    /// Sends one request line and waits for one reply line.
    pub fn call(&mut self, request: &str, timeout: Duration) -> Reply {
        debug_assert!(!request.contains('\n'));
        let ok = self
            .stdin
            .as_mut()
            .map(|s| writeln!(s, "{request}").and_then(|()| s.flush()).is_ok())
            .unwrap_or(false);
        if !ok {
            let status = self.child.wait().map(|s| s.to_string()).unwrap_or_default();
            self.restart();
            return Reply::Died(format!("worker stdin closed ({status})"));
        }
        match self.rx.recv_timeout(timeout) {
            Ok(l) => Reply::Line(l),
            Err(RecvTimeoutError::Timeout) => {
                self.restart();
                Reply::Timeout
            }
            Err(RecvTimeoutError::Disconnected) => {
                let status = self.child.wait().map(|s| s.to_string()).unwrap_or_default();
                self.restart();
                Reply::Died(format!("worker exited ({status})"))
            }
        }
    }
}

impl Drop for Worker {
    fn drop(&mut self) {
        self.kill();
    }
}

/// `Some(name)` when this process was started as a worker.
pub fn worker_role() -> Option<String> {
    let args: Vec<String> = std::env::args().collect();
    args.iter()
        .position(|a| a == "--worker")
        .and_then(|i| args.get(i + 1).cloned())
}

/// Serves requests until stdin closes. Replies are prefixed so stray output is ignored.
pub fn serve(mut handler: impl FnMut(&str) -> String) -> ! {
    let stdin = std::io::stdin();
    let mut line = String::new();
    loop {
        line.clear();
        match stdin.lock().read_line(&mut line) {
            Ok(0) | Err(_) => break,
            Ok(_) => {}
        }
        let reply = handler(line.trim_end_matches('\n'));
        let mut out = std::io::stdout().lock();
        let _ = writeln!(out, "@@{}", reply.replace('\n', " "));
        let _ = out.flush();
    }
    unsafe { libc::_exit(0) }
}
