//! C14 — every spawned task runs once on its processor, and every join handle resolves.
//!
//! Engine E3 (child-process workers, real threads). A case is a set of per-thread scripts over one
//! `vicinal::Pool` on fake (2..8 processors) or the real hardware:
//! pin to a processor; `spawn` / `spawn_urgent` / `spawn_and_forget` / `spawn_urgent_and_forget` of
//! tasks scripted to return a value, panic, block until shutdown was signalled, or spawn more tasks
//! (depth <= 2); await the handle now / at the end of the phase / after the pool was dropped; clone
//! the scheduler; re-pin. The pool is dropped by a coordinator thread after the first phase, at a
//! generated moment during it, or in a generated order relative to one spawn call over the H6 yield
//! points (`vicinal::__verif`). A second phase spawns through schedulers that outlived the pool.
//!
//! Oracle (judged inside the worker, which owns all observations):
//!  * per-task run counter <= 1 always, == 1 when its handle yielded a value or the task's own panic;
//!  * inside the task `hardware.current_processor_id()` (fake) / `sched_getcpu()` (real) equals the
//!    processor the spawner was pinned to (children of a task: the parent's processor);
//!  * a handle yields the task's value or re-raises the task's own panic; the documented
//!    "task was abandoned" panic is accepted only when the pool drop had begun before the await
//!    came back, and never for a task that ran;
//!  * `drop(pool)` returns, without panicking, and no pool worker thread exists at the end;
//!  * every `block_on(handle)`, every `spawn*` call and `drop(pool)` come back before the
//!    deadline (>= 1000x a normal case); a timeout reproduced in a fresh worker is a `hang`.

use std::any::Any;
use std::cell::RefCell;
use std::future::Future;
use std::num::NonZero;
use std::panic::{AssertUnwindSafe, catch_unwind};
use std::pin::pin;
use std::sync::atomic::{AtomicBool, AtomicI64, AtomicU8, AtomicU32, Ordering::SeqCst};
use std::sync::mpsc::channel;
use std::sync::{Arc, Barrier, Condvar, Mutex};
use std::task::{Context, Poll, Wake, Waker};
use std::thread;
use std::time::Duration;

use many_cpus::SystemHardware;
use many_cpus::fake::HardwareBuilder;
use proptest::prelude::*;
use serde::{Deserialize, Serialize};
use vcommon::worker::{Reply, Worker, serve, worker_role};
use vcommon::{Ctx, Failure, Harness, Verdict, pick_index};
use vicinal::{JoinHandle, Pool, Scheduler};

const ABANDONED: &str = "task was abandoned because the pool was shut down";
const POOL_NAME: &str = "c14w";

// ------------------------------------------------------------------------------------------------
// case model (what proptest generates / replays carry)
// ------------------------------------------------------------------------------------------------

#[derive(Debug, Clone, Serialize, Deserialize)]
enum Task {
    /// returns this value
    Value(u32),
    /// panics with a message carrying this value
    Panic(u32),
    /// waits until the pool shutdown was signalled to the workers, then returns this value
    Block(u32),
    /// spawns the children (spawn kind, task) through a captured scheduler clone, then returns
    Nest(Vec<(u8, Task)>),
    /// returns this value; the task's closure owns a guard whose `Drop` spawns a fire-and-forget
    /// no-op task (urgent if the flag is set) through a captured scheduler clone - wherever the
    /// closure is dropped: on the worker after it ran, or inside the pool when it is abandoned
    Guarded(u32, bool),
}

#[derive(Debug, Clone, Serialize, Deserialize)]
enum Op {
    /// kind: 0 spawn, 1 spawn_urgent, 2 spawn_and_forget, 3 spawn_urgent_and_forget;
    /// wait: 0 now, 1 at the end of the phase, 2 after the pool drop
    Spawn { kind: u8, task: Task, wait: u8 },
    /// continue with a fresh clone of the scheduler (the old one is dropped)
    CloneScheduler,
    /// re-pin the spawning thread
    Pin(u16),
}

#[derive(Debug, Clone, Serialize, Deserialize)]
struct Script {
    proc: u16,
    /// while the pool is alive (or being dropped, see `DropSpec`)
    pre: Vec<Op>,
    /// after `drop(pool)` came back: spawns through the scheduler that outlived the pool
    post: Vec<Op>,
}

#[derive(Debug, Clone, Serialize, Deserialize)]
enum DropSpec {
    /// after every thread finished its first phase
    AfterPre,
    /// concurrently, once thread `thread` completed `after` operations of its first phase
    During { thread: u16, after: u16 },
    /// concurrently with spawn operation number `op` (among the spawn ops) of thread `thread`, in
    /// the order over the yield points that `order` encodes (bit i set: next point is the
    /// dropper's, while it has points left)
    Race { thread: u16, op: u16, order: u32 },
}

#[derive(Debug, Clone, Serialize, Deserialize)]
struct Case {
    /// 0 = real hardware, n >= 2 = fake hardware with n processors
    hw: u8,
    workers_per_processor: u8,
    threads: Vec<Script>,
    drop: DropSpec,
    /// threads keep their scheduler clone while they await after the pool drop
    keep_scheduler: bool,
    /// a worker that found its queues empty is held before it registers its wake-up listener
    /// until a task was handed to its processor and every spawn call on that processor came back
    /// (or the pool drop began): forces "queue push + notification land between the empty check
    /// and the listener registration"
    #[serde(default)]
    hold_workers: bool,
    /// fake hardware only: processor-time quota in tenths (0 = none). Never generated by the
    /// random section; only the fixed `quota-probe` cases set it. With a quota the spawners are
    /// pinned to any processor of the hardware, not only to the quota-limited default set.
    #[serde(default)]
    quota_tenths: u8,
    /// delay injection at the pool's own synchronisation operations (every atomic operation and
    /// mutex acquisition of vicinal reports to the harness through the cfg(folo_verif) sync shim):
    /// the `k`-th such operation of a class of threads sleeps `ms` milliseconds, which lets
    /// complete operations of the other threads land inside that window - also inside windows
    /// that only a change to the library creates and no named yield point anticipates
    #[serde(default)]
    pauses: Vec<Pause>,
}

#[derive(Debug, Clone, Serialize, Deserialize)]
struct Pause {
    /// 0 = pool worker threads, 1 = spawning (harness) threads, 2 = the thread dropping the pool
    role: u8,
    /// 1-based index among the synchronisation operations of that class in this case
    k: u16,
    ms: u8,
}

fn pauses_strategy() -> impl Strategy<Value = Vec<Pause>> {
    let p = (0u8..3, prop_oneof![4 => 1u16..12, 3 => 12u16..60, 1 => 60u16..400], prop_oneof![3 => 2u8..6, 2 => 6u8..25]).prop_map(|(role, k, ms)| Pause { role, k, ms });
    prop_oneof![4 => Just(Vec::new()), 3 => prop::collection::vec(p.clone(), 1..=1), 3 => prop::collection::vec(p, 2..=4)]
}

// ------------------------------------------------------------------------------------------------
// generators
// ------------------------------------------------------------------------------------------------

fn leaf() -> BoxedStrategy<Task> {
    prop_oneof![
        24 => (0u32..1000).prop_map(Task::Value),
        8 => (0u32..1000).prop_map(Task::Panic),
        1 => (0u32..1000).prop_map(Task::Block),
        4 => (0u32..1000, any::<bool>()).prop_map(|(v, u)| Task::Guarded(v, u)),
    ]
    .boxed()
}

fn kind() -> BoxedStrategy<u8> {
    prop_oneof![4 => Just(0u8), 3 => Just(1u8), 1 => Just(2u8), 1 => Just(3u8)].boxed()
}

fn task() -> BoxedStrategy<Task> {
    let level1 = prop_oneof![
        6 => leaf(),
        1 => prop::collection::vec((kind(), leaf()), 1..=3).prop_map(Task::Nest),
    ]
    .boxed();
    prop_oneof![
        8 => level1.clone(),
        1 => prop::collection::vec((kind(), level1), 1..=2).prop_map(Task::Nest),
    ]
    .boxed()
}

fn op() -> BoxedStrategy<Op> {
    prop_oneof![
        12 => (kind(), task(), 0u8..3).prop_map(|(kind, task, wait)| Op::Spawn { kind, task, wait }),
        1 => Just(Op::CloneScheduler),
        1 => any::<u16>().prop_map(Op::Pin),
    ]
    .boxed()
}

fn script() -> impl Strategy<Value = Script> {
    (any::<u16>(), prop::collection::vec(op(), 0..7), prop::collection::vec(op(), 0..4)).prop_map(|(proc, pre, post)| Script { proc, pre, post })
}

fn case_strategy() -> impl Strategy<Value = Case> {
    (
        prop_oneof![5 => 2u8..=8, 2 => Just(0u8)],
        1u8..=3,
        prop_oneof![1 => prop::collection::vec(script(), 1..=1), 5 => prop::collection::vec(script(), 2..=4)],
        prop_oneof![
            3 => Just(DropSpec::AfterPre),
            3 => (any::<u16>(), 0u16..7).prop_map(|(thread, after)| DropSpec::During { thread, after }),
            3 => (any::<u16>(), any::<u16>(), 0u32..(1 << (N_S + N_D))).prop_map(|(thread, op, order)| DropSpec::Race { thread, op, order }),
        ],
        any::<bool>(),
        prop::bool::weighted(0.35),
        pauses_strategy(),
    )
        .prop_map(|(hw, workers_per_processor, threads, drop, keep_scheduler, hold_workers, pauses)| Case { hw, workers_per_processor, threads, drop, keep_scheduler, hold_workers, quota_tenths: 0, pauses })
}

/// The yield points of the spawner (S) and of the dropper (D), each in program order.
const S_POINTS: [&str; 7] = [
    "spawn/enter",
    "ensure/after-shutdown-load",
    "ensure/before-get-or-init",
    "ensure/after-get-or-init",
    "ensure/before-handle-lock",
    "spawn/after-ensure",
    "spawn/after-push",
];
const D_POINTS: [&str; 5] = ["drop-begin", "shutdown/flag-stored", "shutdown/signalled", "shutdown/joined", "drop-returned"];
const N_S: usize = S_POINTS.len();
const N_D: usize = D_POINTS.len();

/// Merge word (true = the dropper's next point) from the raw bits: always a complete merge.
fn merge_word(bits: u32) -> Vec<bool> {
    let (mut s, mut d) = (0, 0);
    let mut out = Vec::with_capacity(N_S + N_D);
    for i in 0..(N_S + N_D) {
        let want_d = (bits >> i) & 1 == 1;
        let take_d = if d == N_D {
            false
        } else if s == N_S {
            true
        } else {
            want_d
        };
        if take_d {
            d += 1;
        } else {
            s += 1;
        }
        out.push(take_d);
    }
    out
}

/// All raw bit patterns that are themselves complete merges (exactly N_D bits set in N_S+N_D).
fn all_merges() -> Vec<u32> {
    (0u32..(1 << (N_S + N_D))).filter(|b| b.count_ones() as usize == N_D).collect()
}

/// The enumerated shutdown-vs-spawn window: every order over the yield points x spawn kind x
/// (first use of the processor | workers already exist) x scheduler kept or not.
fn race_cases() -> Vec<Case> {
    let mut out = Vec::new();
    for kind in [0u8, 2] {
        for warm in [false, true] {
            for keep_scheduler in [true, false] {
                for order in all_merges() {
                    let mut pre = Vec::new();
                    if warm {
                        pre.push(Op::Spawn { kind: 0, task: Task::Value(1), wait: 0 });
                    }
                    pre.push(Op::Spawn { kind, task: Task::Value(2), wait: 2 });
                    out.push(Case {
                        hw: 3,
                        workers_per_processor: 2,
                        threads: vec![
                            Script { proc: 0, pre, post: vec![Op::Spawn { kind: 0, task: Task::Value(3), wait: 0 }] },
                            Script { proc: 30000, pre: vec![Op::Spawn { kind: 0, task: Task::Value(4), wait: 2 }], post: vec![] },
                        ],
                        drop: DropSpec::Race { thread: 0, op: u16::from(warm) * 40000, order },
                        keep_scheduler,
                        hold_workers: false,
                        quota_tenths: 0,
                        pauses: Vec::new(),
                    });
                }
            }
        }
    }
    out
}

/// Fixed probe of the open finding: fake hardware with 4 processors under a processor-time quota,
/// the spawner pinned to each processor in turn, three spawn + await.
fn quota_cases() -> Vec<Case> {
    let mut out = Vec::new();
    for quota_tenths in [10u8, 20] {
        for p in 0u16..4 {
            let pre = (0..3).map(|i| Op::Spawn { kind: 0, task: Task::Value(i), wait: 0 }).collect();
            out.push(Case {
                hw: 4,
                workers_per_processor: 1,
                threads: vec![Script { proc: p * 16384 + 100, pre, post: vec![] }],
                drop: DropSpec::AfterPre,
                keep_scheduler: true,
                hold_workers: false,
                quota_tenths,
                pauses: Vec::new(),
            });
        }
    }
    out
}

// ------------------------------------------------------------------------------------------------
// worker side: resolved case, shared state, execution
// ------------------------------------------------------------------------------------------------

#[derive(Clone)]
struct RTask {
    id: usize,
    kind: RKind,
}

#[derive(Clone)]
enum RKind {
    Value(u32),
    Panic(u32),
    Block(u32),
    Nest(Vec<(u8, RTask)>),
    Guarded(u32, bool),
}

#[derive(Clone)]
enum ROp {
    Spawn { kind: u8, task: RTask, wait: u8 },
    CloneScheduler,
    Pin(i64),
}

struct RScript {
    proc: i64,
    pre: Vec<ROp>,
    post: Vec<ROp>,
}

#[derive(Clone, Copy, PartialEq, Eq)]
enum RDrop {
    AfterPre,
    During { thread: usize, after: usize },
    Race { thread: usize, op_index: usize },
}

/// What the task's specification says it does (indexed by task id).
#[derive(Clone)]
struct Spec {
    value: u32,
    panics: bool,
    /// spawned in the second phase (through a scheduler that outlived the pool), incl. descendants
    post: bool,
    has_handle: bool,
    nested: bool,
}

struct Resolved {
    scripts: Vec<RScript>,
    drop: RDrop,
    order: Vec<bool>,
    specs: Vec<Spec>,
    has_blockers: bool,
    has_nested: bool,
}

fn resolve_task(t: &Task, specs: &mut Vec<Spec>, post: bool, has_handle: bool, nested: bool, blockers: &mut bool) -> RTask {
    let id = specs.len();
    specs.push(Spec { value: 0, panics: false, post, has_handle, nested });
    let kind = match t {
        Task::Value(v) => {
            specs[id].value = *v;
            RKind::Value(*v)
        }
        Task::Panic(v) => {
            specs[id].value = *v;
            specs[id].panics = true;
            RKind::Panic(*v)
        }
        Task::Block(v) => {
            specs[id].value = *v;
            *blockers = true;
            RKind::Block(*v)
        }
        Task::Guarded(v, urgent) => {
            specs[id].value = *v;
            RKind::Guarded(*v, *urgent)
        }
        Task::Nest(children) => RKind::Nest(children.iter().map(|(k, c)| (*k % 4, resolve_task(c, specs, post, *k % 4 < 2, true, blockers))).collect()),
    };
    RTask { id, kind }
}

fn resolve(case: &Case, procs: &[i64]) -> Resolved {
    let mut specs = Vec::new();
    let mut has_blockers = false;
    let mut scripts = Vec::new();
    for s in &case.threads {
        let conv = |ops: &[Op], post: bool, specs: &mut Vec<Spec>, blockers: &mut bool| -> Vec<ROp> {
            ops.iter()
                .map(|o| match o {
                    Op::Spawn { kind, task, wait } => ROp::Spawn { kind: *kind % 4, task: resolve_task(task, specs, post, *kind % 4 < 2, false, blockers), wait: *wait % 3 },
                    Op::CloneScheduler => ROp::CloneScheduler,
                    Op::Pin(p) => ROp::Pin(procs[pick_index(*p, procs.len())]),
                })
                .collect()
        };
        let pre = conv(&s.pre, false, &mut specs, &mut has_blockers);
        let post = conv(&s.post, true, &mut specs, &mut has_blockers);
        scripts.push(RScript { proc: procs[pick_index(s.proc, procs.len())], pre, post });
    }
    let has_nested = specs.iter().any(|s| s.nested);
    let n = scripts.len();
    let mut order = Vec::new();
    let drop = match case.drop {
        DropSpec::AfterPre => RDrop::AfterPre,
        DropSpec::During { thread, after } => RDrop::During { thread: pick_index(thread, n), after: after as usize },
        DropSpec::Race { thread, op, order: bits } => {
            // the racing thread: the first one at or after `thread` that has a spawn op
            let start = pick_index(thread, n);
            let cand = (0..n).map(|k| (start + k) % n).find(|t| scripts[*t].pre.iter().any(|o| matches!(o, ROp::Spawn { .. })));
            match cand {
                None => RDrop::AfterPre,
                Some(t) => {
                    let spawn_ops: Vec<usize> = scripts[t].pre.iter().enumerate().filter(|(_, o)| matches!(o, ROp::Spawn { .. })).map(|(i, _)| i).collect();
                    order = merge_word(bits);
                    RDrop::Race { thread: t, op_index: spawn_ops[pick_index(op, spawn_ops.len())] }
                }
            }
        }
    };
    // A blocker occupies a worker until the shutdown was signalled: nothing may wait for a task
    // of the first phase before the pool drop then (it could sit behind the blocker).
    if has_blockers {
        for s in &mut scripts {
            for o in &mut s.pre {
                if let ROp::Spawn { wait, .. } = o {
                    *wait = 2;
                }
            }
        }
    }
    Resolved { scripts, drop, order, specs, has_blockers, has_nested }
}

struct Out {
    id: usize,
    val: u32,
    children: Vec<(usize, JoinHandle<Out>)>,
}

#[derive(Default)]
struct TaskRec {
    runs: AtomicU32,
    done: AtomicBool,
    seen: AtomicI64,
    expected: AtomicI64,
    /// 0 not spawned, 1 spawn call came back before the drop began, 2 overlapped the drop,
    /// 3 spawn call began after drop(pool) came back
    spawn_phase: AtomicU8,
}

#[derive(Debug, Clone)]
enum Outcome {
    Value { id: usize, val: u32, live: bool },
    Panic { msg: String, live: bool },
}

struct Gate {
    open: Mutex<bool>,
    cv: Condvar,
}

impl Gate {
    fn open(&self) {
        *self.open.lock().unwrap() = true;
        self.cv.notify_all();
    }
    fn wait(&self) {
        let mut g = self.open.lock().unwrap();
        while !*g {
            g = self.cv.wait(g).unwrap();
        }
    }
}

const ST_HARNESS: u32 = 0;
const ST_SPAWN: u32 = 1;
const ST_AWAIT: u32 = 2;
const ST_DROP: u32 = 3;
const ST_FORGET_WAIT: u32 = 4;
const ST_BARRIER: u32 = 5;
const ST_DONE: u32 = 6;

#[derive(Default)]
struct ThreadStatus {
    code: AtomicU32,
    arg: AtomicU32,
    at_gate: AtomicBool,
}

struct RaceCtl {
    thread: usize,
    op_index: usize,
    /// position in the order -> point (0..N_S = spawner's, N_S.. = dropper's)
    order: Vec<usize>,
    passed: Mutex<Vec<bool>>,
    cv: Condvar,
    started: Mutex<bool>,
    started_cv: Condvar,
}

impl RaceCtl {
    fn new(thread: usize, op_index: usize, word: &[bool]) -> Self {
        let (mut s, mut d) = (0, 0);
        let order: Vec<usize> = word
            .iter()
            .map(|is_d| {
                if *is_d {
                    d += 1;
                    N_S + d - 1
                } else {
                    s += 1;
                    s - 1
                }
            })
            .collect();
        let n = order.len();
        Self { thread, op_index, order, passed: Mutex::new(vec![false; n]), cv: Condvar::new(), started: Mutex::new(false), started_cv: Condvar::new() }
    }

    /// Blocks until every point ordered before `point` was passed (when `wait`), then passes it.
    fn arrive(&self, point: usize, wait: bool, st: Option<&ThreadStatus>) {
        let Some(pos) = self.order.iter().position(|p| *p == point) else { return };
        let mut g = self.passed.lock().unwrap();
        if g[pos] {
            return;
        }
        // points of the same side that lie before this one in program order were skipped
        let dropper = point >= N_S;
        for (q, p) in self.order.iter().enumerate().take(pos) {
            if (*p >= N_S) == dropper {
                g[q] = true;
            }
        }
        self.cv.notify_all();
        if wait {
            while g[..pos].iter().any(|p| !*p) {
                if let Some(st) = st {
                    st.at_gate.store(true, SeqCst);
                }
                g = self.cv.wait(g).unwrap();
            }
            if let Some(st) = st {
                st.at_gate.store(false, SeqCst);
            }
        }
        g[pos] = true;
        self.cv.notify_all();
    }

    /// The side will pass no further point (its call came back).
    fn finish_side(&self, dropper: bool) {
        let mut g = self.passed.lock().unwrap();
        for (pos, p) in self.order.iter().enumerate() {
            if (*p >= N_S) == dropper {
                g[pos] = true;
            }
        }
        self.cv.notify_all();
    }

    fn signal_start(&self) {
        *self.started.lock().unwrap() = true;
        self.started_cv.notify_all();
    }

    fn wait_start(&self) {
        let mut g = self.started.lock().unwrap();
        while !*g {
            g = self.started_cv.wait(g).unwrap();
        }
    }
}

#[derive(Default)]
struct HoldState {
    /// per processor: spawn calls begun / come back, task bodies started
    begun: std::collections::BTreeMap<i64, u64>,
    returned: std::collections::BTreeMap<i64, u64>,
    started: std::collections::BTreeMap<i64, u64>,
    released: bool,
    /// workers let go because a complete spawn happened while they were held
    forced: u64,
}

#[derive(Default)]
struct HoldCtl {
    st: Mutex<HoldState>,
    cv: Condvar,
}

impl HoldCtl {
    fn bump(&self, f: impl FnOnce(&mut HoldState)) {
        f(&mut self.st.lock().unwrap());
        self.cv.notify_all();
    }

    /// Called on a pool worker that found nothing to do, before it registers its listener.
    fn hold_worker(&self, proc: i64) {
        let mut g = self.st.lock().unwrap();
        loop {
            if g.released {
                return;
            }
            let get = |m: &std::collections::BTreeMap<i64, u64>| m.get(&proc).copied().unwrap_or(0);
            let (begun, returned, started) = (get(&g.begun), get(&g.returned), get(&g.started));
            if begun > started && returned == begun {
                g.forced += 1;
                return;
            }
            g = self.cv.wait(g).unwrap();
        }
    }
}

struct Shared {
    hold: Option<HoldCtl>,
    real: bool,
    hw: SystemHardware,
    recs: Vec<TaskRec>,
    gate: Gate,
    stray: Mutex<Vec<(usize, JoinHandle<Out>)>>,
    drop_started: AtomicBool,
    drop_done: AtomicBool,
    status: Vec<ThreadStatus>,
    race: Option<RaceCtl>,
    done_lock: Mutex<()>,
    done_cv: Condvar,
    failures: Mutex<Vec<(String, String)>>,
    outcomes: Mutex<Vec<(usize, Outcome)>>,
    progress: Mutex<Vec<usize>>,
    progress_cv: Condvar,
    keep_scheduler: bool,
    forget_wait_ok: bool,
    /// points the racing threads actually passed (classification only)
    race_hits: Mutex<Vec<&'static str>>,
    /// delay injection plan and per-class counters of synchronisation operations
    pauses: Vec<Pause>,
    sync_counts: [AtomicU32; 3],
    pauses_taken: AtomicU32,
    /// `Guarded` tasks: guards dropped / dropped although their task never ran / no-op tasks run
    guard_drops: AtomicU32,
    guard_drops_unrun: AtomicU32,
    guard_spawn_runs: AtomicU32,
}

impl Shared {
    fn fail(&self, sig: &str, msg: String) {
        self.failures.lock().unwrap().push((sig.to_string(), msg));
    }
    fn current_proc(&self) -> i64 {
        if self.real { i64::from(unsafe { libc::sched_getcpu() }) } else { i64::from(self.hw.current_processor_id()) }
    }
}

#[derive(Clone)]
struct Me {
    sh: Arc<Shared>,
    idx: usize,
    /// 0 none, 1 racing spawner, 2 dropper
    role: u8,
}

thread_local! {
    static ME: RefCell<Option<Me>> = const { RefCell::new(None) };
}

static CURRENT: Mutex<Option<Arc<Shared>>> = Mutex::new(None);

fn set_me(me: Option<Me>) {
    ME.with(|m| *m.borrow_mut() = me);
}

fn set_role(role: u8) {
    ME.with(|m| {
        if let Some(me) = m.borrow_mut().as_mut() {
            me.role = role;
        }
    });
}

fn status(code: u32, arg: usize) {
    ME.with(|m| {
        if let Some(me) = m.borrow().as_ref() {
            let st = &me.sh.status[me.idx];
            st.arg.store(arg as u32, SeqCst);
            st.code.store(code, SeqCst);
        }
    });
}

/// The H6 callback: gates the two racing threads, opens the blocker gate once the dropper has
/// signalled shutdown to the workers. Every other thread passes straight through.
fn on_point(name: &'static str) {
    if name == "worker/before-listen" {
        let sh = CURRENT.lock().unwrap().clone();
        if let Some(sh) = sh {
            if let Some(hold) = &sh.hold {
                // worker threads are named <pool name>-<processor id>-<worker index>
                let proc = thread::current().name().and_then(|n| n.split('-').nth(1).and_then(|p| p.parse::<i64>().ok()));
                if let Some(proc) = proc {
                    hold.hold_worker(proc);
                }
            }
        }
        return;
    }
    let me = ME.with(|m| m.borrow().clone());
    let Some(me) = me else { return };
    if me.role == 0 {
        return;
    }
    if me.role == 2 && name == "shutdown/signalled" {
        me.sh.gate.open();
    }
    let Some(race) = &me.sh.race else { return };
    let point = if me.role == 1 { S_POINTS.iter().position(|p| *p == name) } else { D_POINTS.iter().position(|p| *p == name).map(|i| i + N_S) };
    let Some(point) = point else { return };
    race.arrive(point, true, Some(&me.sh.status[me.idx]));
    me.sh.race_hits.lock().unwrap().push(name);
}

/// Called before every atomic operation / mutex acquisition of vicinal (sync shim hooks).
fn on_sync() {
    let me = ME.with(|m| m.borrow().clone());
    let (sh, role) = match me {
        Some(me) => {
            let role = if me.role == 2 { 2 } else { 1 };
            (me.sh, role)
        }
        None => {
            // pool worker threads are named <pool name>-<processor id>-<worker index>
            if !thread::current().name().is_some_and(|n| n.starts_with(POOL_NAME)) {
                return;
            }
            let Some(sh) = CURRENT.lock().unwrap().clone() else { return };
            (sh, 0)
        }
    };
    if sh.pauses.is_empty() {
        return;
    }
    let n = sh.sync_counts[role].fetch_add(1, SeqCst) + 1;
    for p in &sh.pauses {
        if usize::from(p.role % 3) == role && u32::from(p.k) == n {
            sh.pauses_taken.fetch_add(1, SeqCst);
            thread::sleep(Duration::from_millis(u64::from(p.ms.min(40))));
        }
    }
}

fn sync_atomic(_addr: usize, _op: vicinal::__verif::AtomicOp, _s: std::sync::atomic::Ordering, _f: std::sync::atomic::Ordering, exec: &mut dyn FnMut() -> (u64, Option<u64>)) -> u64 {
    on_sync();
    exec().0
}

fn sync_fence(_o: std::sync::atomic::Ordering) {}

fn sync_spin() {
    std::hint::spin_loop();
}

fn sync_mutex_lock(_addr: usize, try_lock: &mut dyn FnMut() -> bool) {
    on_sync();
    while !try_lock() {
        thread::yield_now();
    }
}

fn sync_mutex_unlock(_addr: usize) {}

struct ParkWaker(thread::Thread);

impl Wake for ParkWaker {
    fn wake(self: Arc<Self>) {
        self.0.unpark();
    }
    fn wake_by_ref(self: &Arc<Self>) {
        self.0.unpark();
    }
}

fn block_on<F: Future>(f: F) -> F::Output {
    let mut f = pin!(f);
    let waker = Waker::from(Arc::new(ParkWaker(thread::current())));
    let mut cx = Context::from_waker(&waker);
    loop {
        if let Poll::Ready(v) = f.as_mut().poll(&mut cx) {
            return v;
        }
        thread::park();
    }
}

fn payload_message(p: &(dyn Any + Send)) -> String {
    vcommon::panic_message(p)
}

fn own_panic_message(id: usize, v: u32) -> String {
    format!("c14 task {id} panics with {v}")
}

struct DoneGuard {
    sh: Arc<Shared>,
    id: usize,
}

impl Drop for DoneGuard {
    fn drop(&mut self) {
        self.sh.recs[self.id].done.store(true, SeqCst);
        let _g = self.sh.done_lock.lock().unwrap();
        self.sh.done_cv.notify_all();
    }
}

type Body = Box<dyn FnOnce() -> Out + Send + 'static>;

/// Owned by the closure of a `Guarded` task: spawns a no-op task when dropped.
struct SpawnOnDrop {
    sched: Scheduler,
    urgent: bool,
    sh: Arc<Shared>,
    id: usize,
}

impl Drop for SpawnOnDrop {
    fn drop(&mut self) {
        self.sh.guard_drops.fetch_add(1, SeqCst);
        if !self.sh.recs[self.id].done.load(SeqCst) {
            self.sh.guard_drops_unrun.fetch_add(1, SeqCst);
        }
        let ran = Arc::clone(&self.sh);
        let r = catch_unwind(AssertUnwindSafe(|| {
            let noop = move || {
                ran.guard_spawn_runs.fetch_add(1, SeqCst);
            };
            if self.urgent { self.sched.spawn_urgent_and_forget(noop) } else { self.sched.spawn_and_forget(noop) }
        }));
        if let Err(p) = r {
            self.sh.fail("C14/spawn-from-drop/panicked", format!("a spawn made from the Drop of state captured by task {} panicked: {}", self.id, payload_message(&*p)));
        }
    }
}

fn make_body(task: RTask, sh: Arc<Shared>, sched: Option<Scheduler>, proc: i64, parent_forget: bool) -> Body {
    let guard = match (&task.kind, &sched) {
        (RKind::Guarded(_, urgent), Some(s)) => Some(SpawnOnDrop { sched: s.clone(), urgent: *urgent, sh: Arc::clone(&sh), id: task.id }),
        _ => None,
    };
    Box::new(move || {
        // captured state with a destructor: dropped when this closure is dropped, run or not
        let _guard = &guard;
        let id = task.id;
        let rec = &sh.recs[id];
        rec.seen.store(sh.current_proc(), SeqCst);
        rec.runs.fetch_add(1, SeqCst);
        if let Some(hold) = &sh.hold {
            hold.bump(|st| *st.started.entry(proc).or_insert(0) += 1);
        }
        let _done = DoneGuard { sh: Arc::clone(&sh), id };
        match task.kind {
            RKind::Value(v) => Out { id, val: v, children: Vec::new() },
            RKind::Panic(v) => panic!("{}", own_panic_message(id, v)),
            RKind::Block(v) => {
                sh.gate.wait();
                Out { id, val: v, children: Vec::new() }
            }
            RKind::Guarded(v, _) => Out { id, val: v, children: Vec::new() },
            RKind::Nest(children) => {
                let sched = sched.expect("nest task carries a scheduler");
                let mut handles = Vec::new();
                for (kind, child) in children {
                    let cid = child.id;
                    if let Some(h) = do_spawn(&sh, &sched, kind, &child, proc) {
                        handles.push((cid, h));
                    }
                }
                if parent_forget {
                    sh.stray.lock().unwrap().append(&mut handles);
                }
                Out { id, val: 0, children: handles }
            }
        }
    })
}

fn has_nest(t: &RTask) -> bool {
    matches!(t.kind, RKind::Nest(_) | RKind::Guarded(..))
}

fn do_spawn(sh: &Arc<Shared>, sched: &Scheduler, kind: u8, task: &RTask, proc: i64) -> Option<JoinHandle<Out>> {
    let id = task.id;
    sh.recs[id].expected.store(proc, SeqCst);
    let began_after_drop = sh.drop_done.load(SeqCst);
    let nested_sched = has_nest(task).then(|| sched.clone());
    let body = make_body(task.clone(), Arc::clone(sh), nested_sched, proc, kind >= 2);
    if let Some(hold) = &sh.hold {
        hold.bump(|st| *st.begun.entry(proc).or_insert(0) += 1);
    }
    status(ST_SPAWN, id);
    let r = catch_unwind(AssertUnwindSafe(|| match kind {
        0 => Some(sched.spawn(body)),
        1 => Some(sched.spawn_urgent(body)),
        2 => {
            sched.spawn_and_forget(move || drop(body()));
            None
        }
        _ => {
            sched.spawn_urgent_and_forget(move || drop(body()));
            None
        }
    }));
    status(ST_HARNESS, 0);
    if let Some(hold) = &sh.hold {
        hold.bump(|st| *st.returned.entry(proc).or_insert(0) += 1);
    }
    let phase = if began_after_drop {
        3
    } else if !sh.drop_started.load(SeqCst) {
        1
    } else {
        2
    };
    sh.recs[id].spawn_phase.store(phase, SeqCst);
    match r {
        Ok(h) => h,
        Err(p) => {
            sh.fail("C14/spawn/panicked", format!("spawn kind {kind} of task {id} panicked: {}", payload_message(&*p)));
            None
        }
    }
}

fn await_handle(sh: &Arc<Shared>, id: usize, h: JoinHandle<Out>) {
    status(ST_AWAIT, id);
    let r = catch_unwind(AssertUnwindSafe(|| block_on(h)));
    let live = !sh.drop_started.load(SeqCst);
    status(ST_HARNESS, 0);
    match r {
        Ok(out) => {
            sh.outcomes.lock().unwrap().push((id, Outcome::Value { id: out.id, val: out.val, live }));
            for (cid, ch) in out.children {
                await_handle(sh, cid, ch);
            }
        }
        Err(p) => {
            sh.outcomes.lock().unwrap().push((id, Outcome::Panic { msg: payload_message(&*p), live }));
        }
    }
}

fn wait_forget(sh: &Arc<Shared>, id: usize) {
    status(ST_FORGET_WAIT, id);
    let mut g = sh.done_lock.lock().unwrap();
    while !sh.recs[id].done.load(SeqCst) {
        g = sh.done_cv.wait_timeout(g, Duration::from_millis(20)).unwrap().0;
    }
    drop(g);
    status(ST_HARNESS, 0);
}

fn pin_to(sh: &Shared, proc: i64) {
    let set = sh.hw.all_processors().to_builder().filter(|p| i64::from(p.id()) == proc).take_all().expect("processor exists");
    set.pin_current_thread_to();
}

fn set_progress(sh: &Shared, idx: usize, v: usize) {
    sh.progress.lock().unwrap()[idx] = v;
    sh.progress_cv.notify_all();
}

#[allow(clippy::too_many_arguments)]
fn harness_thread(idx: usize, script: &RScript, sh: &Arc<Shared>, sched0: Scheduler, start: &Barrier, b1: &Barrier, b2: &Barrier) {
    set_me(Some(Me { sh: Arc::clone(sh), idx, role: 0 }));
    let mut proc = script.proc;
    pin_to(sh, proc);
    status(ST_BARRIER, 0);
    start.wait();
    status(ST_HARNESS, 0);
    let mut sched = Some(sched0);
    let mut later: Vec<(usize, JoinHandle<Out>)> = Vec::new();
    let mut after_drop: Vec<(usize, JoinHandle<Out>)> = Vec::new();
    let mut forget_later: Vec<usize> = Vec::new();
    for (k, op) in script.pre.iter().enumerate() {
        match op {
            ROp::Pin(p) => {
                proc = *p;
                pin_to(sh, proc);
            }
            ROp::CloneScheduler => {
                let fresh = sched.as_ref().expect("alive").clone();
                sched = Some(fresh);
            }
            ROp::Spawn { kind, task, wait } => {
                let racer = sh.race.as_ref().filter(|r| r.thread == idx && r.op_index == k);
                if let Some(r) = racer {
                    set_role(1);
                    r.signal_start();
                }
                let h = do_spawn(sh, sched.as_ref().expect("alive"), *kind, task, proc);
                if let Some(r) = racer {
                    set_role(0);
                    r.finish_side(false);
                }
                match (h, *wait) {
                    (Some(h), 0) => await_handle(sh, task.id, h),
                    (Some(h), 1) => later.push((task.id, h)),
                    (Some(h), _) => after_drop.push((task.id, h)),
                    (None, 0) if sh.forget_wait_ok && *kind >= 2 => wait_forget(sh, task.id),
                    (None, 1) if sh.forget_wait_ok && *kind >= 2 => forget_later.push(task.id),
                    _ => {}
                }
            }
        }
        set_progress(sh, idx, k + 1);
    }
    for (id, h) in later {
        await_handle(sh, id, h);
    }
    for id in forget_later {
        wait_forget(sh, id);
    }
    set_progress(sh, idx, usize::MAX);
    status(ST_BARRIER, 1);
    b1.wait();
    b2.wait();
    status(ST_HARNESS, 0);
    // second phase: the pool is gone, the scheduler outlived it
    let mut post_later: Vec<(usize, JoinHandle<Out>)> = Vec::new();
    for op in &script.post {
        match op {
            ROp::Pin(p) => {
                proc = *p;
                pin_to(sh, proc);
            }
            ROp::CloneScheduler => {
                let fresh = sched.as_ref().expect("alive").clone();
                sched = Some(fresh);
            }
            ROp::Spawn { kind, task, wait } => {
                let h = do_spawn(sh, sched.as_ref().expect("alive"), *kind, task, proc);
                match (h, *wait) {
                    (Some(h), 0) => await_handle(sh, task.id, h),
                    (Some(h), _) => post_later.push((task.id, h)),
                    _ => {}
                }
            }
        }
    }
    if !sh.keep_scheduler {
        sched = None;
    }
    for (id, h) in after_drop {
        await_handle(sh, id, h);
    }
    for (id, h) in post_later {
        await_handle(sh, id, h);
    }
    drop(sched);
    status(ST_DONE, 0);
    set_me(None);
}

/// (pool worker threads, all threads) of this process.
fn count_threads() -> (usize, usize) {
    let mut workers = 0;
    let mut all = 0;
    if let Ok(rd) = std::fs::read_dir("/proc/self/task") {
        for e in rd.flatten() {
            // a thread that has already been joined can stay listed, as a zombie, until the kernel
            // has released it - on an oversubscribed machine for seconds; it is not a live thread
            if let Ok(stat) = std::fs::read_to_string(e.path().join("stat")) {
                let state = stat.rsplit(')').next().and_then(|rest| rest.trim_start().chars().next());
                if matches!(state, Some('Z' | 'X' | 'x')) {
                    continue;
                }
            } else {
                continue; // gone between readdir and read
            }
            all += 1;
            if let Ok(comm) = std::fs::read_to_string(e.path().join("comm")) {
                if comm.starts_with(POOL_NAME) {
                    workers += 1;
                }
            }
        }
    }
    (workers, all)
}

#[derive(Debug, Default, Serialize, Deserialize)]
struct WReply {
    /// "ok" | "fail" | "hang" | "error"
    status: String,
    sig: String,
    msg: String,
    classes: Vec<String>,
    nontrivial: bool,
}

#[derive(Debug, Serialize, Deserialize)]
struct WRequest {
    deadline_ms: u64,
    case: Case,
}

fn hardware_for(case: &Case) -> (SystemHardware, bool) {
    if case.hw == 0 {
        (SystemHardware::current().clone(), true)
    } else {
        let n = usize::from(case.hw.clamp(2, 8));
        let mut b = HardwareBuilder::from_counts(NonZero::new(n).expect("n>=2"), NonZero::new(1).expect("1"));
        if case.quota_tenths > 0 {
            b = b.max_processor_time(f64::from(case.quota_tenths) / 10.0);
        }
        (SystemHardware::fake(b), false)
    }
}

/// Runs one case to completion on the calling (coordinator) thread.
fn run_case(case: &Case) -> WReply {
    let (hw, real) = hardware_for(case);
    let quota = !real && case.quota_tenths > 0;
    let default_set: Vec<i64> = hw.processors().processors().iter().map(|p| i64::from(p.id())).collect();
    let mut procs: Vec<i64> = if quota { hw.all_processors().processors().iter().map(|p| i64::from(p.id())).collect() } else { default_set.clone() };
    procs.sort_unstable();
    let res = resolve(case, &procs);
    let n = res.scripts.len();
    let (_, base_all) = count_threads();

    let race = match res.drop {
        RDrop::Race { thread, op_index } => Some(RaceCtl::new(thread, op_index, &res.order)),
        _ => None,
    };
    let sh = Arc::new(Shared {
        hold: case.hold_workers.then(HoldCtl::default),
        real,
        hw: hw.clone(),
        recs: (0..res.specs.len()).map(|_| TaskRec::default()).collect(),
        gate: Gate { open: Mutex::new(false), cv: Condvar::new() },
        stray: Mutex::new(Vec::new()),
        drop_started: AtomicBool::new(false),
        drop_done: AtomicBool::new(false),
        status: (0..=n).map(|_| ThreadStatus::default()).collect(),
        race,
        done_lock: Mutex::new(()),
        done_cv: Condvar::new(),
        failures: Mutex::new(Vec::new()),
        outcomes: Mutex::new(Vec::new()),
        progress: Mutex::new(vec![0; n]),
        progress_cv: Condvar::new(),
        keep_scheduler: case.keep_scheduler,
        forget_wait_ok: res.drop == RDrop::AfterPre && !res.has_blockers,
        race_hits: Mutex::new(Vec::new()),
        pauses: case.pauses.clone(),
        sync_counts: [AtomicU32::new(0), AtomicU32::new(0), AtomicU32::new(0)],
        pauses_taken: AtomicU32::new(0),
        guard_drops: AtomicU32::new(0),
        guard_drops_unrun: AtomicU32::new(0),
        guard_spawn_runs: AtomicU32::new(0),
    });
    *CURRENT.lock().unwrap() = Some(Arc::clone(&sh));
    set_me(Some(Me { sh: Arc::clone(&sh), idx: n, role: 2 }));

    let wpp = u32::from(case.workers_per_processor.clamp(1, 3));
    let pool = Pool::builder().hardware(hw.clone()).workers_per_processor(NonZero::new(wpp).expect("wpp>=1")).name(POOL_NAME).build();
    let start = Barrier::new(n + 1);
    let b1 = Barrier::new(n + 1);
    let b2 = Barrier::new(n + 1);

    let do_drop = |pool: Pool| {
        status(ST_DROP, 0);
        if let Some(race) = &sh.race {
            race.arrive(N_S, true, Some(&sh.status[n]));
        }
        sh.drop_started.store(true, SeqCst);
        if let Some(hold) = &sh.hold {
            hold.bump(|st| st.released = true);
        }
        let r = catch_unwind(AssertUnwindSafe(|| drop(pool)));
        sh.drop_done.store(true, SeqCst);
        status(ST_HARNESS, 0);
        if let Some(race) = &sh.race {
            race.arrive(N_S + N_D - 1, false, None);
            race.finish_side(true);
        }
        sh.gate.open();
        if let Err(p) = r {
            sh.fail("C14/drop-pool/panicked", format!("drop(pool) panicked: {}", payload_message(&*p)));
        }
    };

    thread::scope(|scope| {
        for (i, script) in res.scripts.iter().enumerate() {
            let sched = pool.scheduler();
            let (sh, start, b1, b2) = (&sh, &start, &b1, &b2);
            thread::Builder::new().name(format!("c14h-{i}")).spawn_scoped(scope, move || harness_thread(i, script, sh, sched, start, b1, b2)).expect("thread spawn (infrastructure)");
        }
        status(ST_BARRIER, 0);
        start.wait();
        match res.drop {
            RDrop::AfterPre => {
                status(ST_BARRIER, 1);
                b1.wait();
                do_drop(pool);
                status(ST_BARRIER, 2);
                b2.wait();
            }
            RDrop::During { thread, after } => {
                {
                    let mut g = sh.progress.lock().unwrap();
                    while g[thread] < after {
                        g = sh.progress_cv.wait(g).unwrap();
                    }
                }
                do_drop(pool);
                status(ST_BARRIER, 1);
                b1.wait();
                b2.wait();
            }
            RDrop::Race { .. } => {
                sh.race.as_ref().expect("race").wait_start();
                do_drop(pool);
                status(ST_BARRIER, 1);
                b1.wait();
                b2.wait();
            }
        }
        status(ST_HARNESS, 0);
    });
    // handles nobody else holds (children of fire-and-forget parents)
    loop {
        let next = sh.stray.lock().unwrap().pop();
        let Some((id, h)) = next else { break };
        await_handle(&sh, id, h);
    }
    status(ST_DONE, 0);
    set_me(None);
    *CURRENT.lock().unwrap() = None;

    judge(case, &res, &sh, base_all, real, quota.then_some(default_set.as_slice()))
}

fn judge(case: &Case, res: &Resolved, sh: &Arc<Shared>, base_all: usize, real: bool, quota_default_set: Option<&[i64]>) -> WReply {
    let mut reply = WReply { status: "ok".into(), ..WReply::default() };
    let mut classes: Vec<String> = Vec::new();
    let hwname = if real { "real" } else { "fake" };
    classes.push(format!("hw:{hwname}"));
    classes.push(format!("threads:{}", res.scripts.len()));
    classes.push(
        match res.drop {
            RDrop::AfterPre => "drop:after-first-phase",
            RDrop::During { .. } => "drop:during-first-phase",
            RDrop::Race { .. } => "drop:ordered-against-a-spawn",
        }
        .into(),
    );
    if let Some(set) = quota_default_set {
        classes.push(format!("quota:{:.1}", f64::from(case.quota_tenths) / 10.0));
        let outside = res.scripts.iter().any(|s| !set.contains(&s.proc));
        classes.push(if outside { "quota:spawner-outside-default-set" } else { "quota:spawner-inside-default-set" }.into());
    }
    if res.has_blockers {
        classes.push("has:blocker-task".into());
    }
    if res.has_nested {
        classes.push("has:nested-spawn".into());
    }
    if res.specs.iter().any(|s| s.post) {
        classes.push("has:spawn-through-outlived-scheduler".into());
    }
    if let Some(hold) = &sh.hold {
        classes.push(if hold.st.lock().unwrap().forced > 0 { "wake:spawn-completed-between-empty-check-and-listener" } else { "wake:workers-held-none-forced" }.into());
    }
    classes.push(if case.keep_scheduler { "scheduler:kept-while-awaiting" } else { "scheduler:dropped-before-awaiting" }.into());
    if sh.guard_drops.load(SeqCst) > 0 {
        classes.push("has:task-state-whose-drop-spawns".into());
    }
    if sh.guard_drops_unrun.load(SeqCst) > 0 {
        classes.push("drop-spawn:from-an-abandoned-task".into());
    }
    if !case.pauses.is_empty() {
        let taken = sh.pauses_taken.load(SeqCst);
        classes.push(if taken > 0 { "delay-injected-at-sync-op" } else { "delay-plan-not-reached" }.into());
        for p in &case.pauses {
            if u32::from(p.k) <= sh.sync_counts[usize::from(p.role % 3)].load(SeqCst) {
                classes.push(format!("delay-injected:{}", ["worker", "spawner", "dropper"][usize::from(p.role % 3)]));
            }
        }
    }

    let mut failures: Vec<(String, String)> = std::mem::take(&mut *sh.failures.lock().unwrap());
    let outcomes = sh.outcomes.lock().unwrap().clone();
    let mut resolved = vec![false; res.specs.len()];

    // threads: poll briefly, an already joined thread may still be listed for a moment
    let mut left = count_threads();
    for _ in 0..2000 {
        if left.0 == 0 && left.1 <= base_all {
            break;
        }
        thread::sleep(Duration::from_millis(5));
        left = count_threads();
    }
    if left.0 != 0 {
        failures.push(("C14/drop-pool/worker-threads-remain".into(), format!("{} pool worker thread(s) still exist after drop(pool) came back and every spawner finished", left.0)));
    } else if left.1 > base_all {
        failures.push(("C14/drop-pool/threads-remain".into(), format!("{} threads before the case, {} after it", base_all, left.1)));
    }

    for (id, rec) in sh.recs.iter().enumerate() {
        let runs = rec.runs.load(SeqCst);
        if runs > 1 {
            failures.push(("C14/task/ran-more-than-once".into(), format!("task {id} ran {runs} times")));
        }
        if runs >= 1 {
            let (seen, expected) = (rec.seen.load(SeqCst), rec.expected.load(SeqCst));
            if seen != expected {
                match quota_default_set {
                    // the open finding: only for a spawner outside the quota-limited default set
                    Some(set) if !set.contains(&expected) => failures.push((
                        "C14/quota/worker-not-pinned-outside-quota-limited-set".into(),
                        format!("quota {:.1}: task {id} was spawned from processor {expected}, which is outside hardware.processors() = {set:?}, and ran on processor {seen}", f64::from(case.quota_tenths) / 10.0),
                    )),
                    _ => failures.push((format!("C14/task/ran-on-wrong-processor/{hwname}"), format!("task {id} was spawned from processor {expected} and ran on processor {seen}"))),
                }
            }
        }
    }
    let (mut n_abandoned, mut n_value_after_drop, mut n_reraised, mut n_live) = (0, 0, 0, 0);
    for (id, o) in &outcomes {
        let spec = &res.specs[*id];
        let rec = &sh.recs[*id];
        let runs = rec.runs.load(SeqCst);
        if resolved[*id] {
            failures.push(("C14/harness/handle-awaited-twice".into(), format!("task {id}")));
        }
        resolved[*id] = true;
        match o {
            Outcome::Value { id: got_id, val, live } => {
                if *live {
                    n_live += 1;
                } else {
                    n_value_after_drop += 1;
                }
                let want = if matches!(spec, Spec { panics: true, .. }) { None } else { Some(spec.value) };
                if *got_id != *id || want != Some(*val) && !is_nest(res, *id) {
                    failures.push(("C14/handle/wrong-value".into(), format!("handle of task {id} yielded (task {got_id}, value {val}), expected {want:?}")));
                }
                if runs != 1 {
                    failures.push(("C14/handle/value-but-run-count-not-one".into(), format!("handle of task {id} yielded a value, the task ran {runs} times")));
                }
            }
            Outcome::Panic { msg, live } => {
                if spec.panics && *msg == own_panic_message(*id, spec.value) {
                    n_reraised += 1;
                    if *live {
                        n_live += 1;
                    }
                    if runs != 1 {
                        failures.push(("C14/handle/panic-but-run-count-not-one".into(), format!("handle of task {id} re-raised the task's panic, the task ran {runs} times")));
                    }
                } else if msg == ABANDONED {
                    n_abandoned += 1;
                    if *live {
                        failures.push(("C14/handle/abandoned-on-live-pool".into(), format!("handle of task {id} panicked with '{msg}' before drop(pool) was called (task ran {runs} times, spec panics: {})", spec.panics)));
                    } else if runs != 0 {
                        failures.push(("C14/handle/abandoned-but-task-ran".into(), format!("handle of task {id} panicked with '{msg}' although the task ran {runs} times (spec panics: {})", spec.panics)));
                    }
                } else {
                    failures.push(("C14/handle/unexpected-panic".into(), format!("awaiting the handle of task {id} panicked with '{msg}'")));
                }
            }
        }
    }
    // harness self-check: every handle that came into existence was awaited to completion
    let spawn_failed = failures.iter().any(|(sig, _)| sig == "C14/spawn/panicked");
    for (id, spec) in res.specs.iter().enumerate() {
        if spec.has_handle && sh.recs[id].spawn_phase.load(SeqCst) != 0 && !resolved[id] && !spawn_failed {
            return WReply { status: "error".into(), msg: format!("handle of task {id} was created but never awaited"), ..WReply::default() };
        }
    }
    // (else the watchdog fired);
    // a forget task the harness waited for on a live pool ran exactly once (wait_forget returned
    // only after it ran; run count checked above). Queued-at-shutdown classification:
    let queued_at_drop = sh.recs.iter().enumerate().filter(|(id, r)| r.spawn_phase.load(SeqCst) == 1 && r.runs.load(SeqCst) == 0 && !res.specs[*id].post).count();
    if n_abandoned > 0 {
        classes.push("outcome:abandoned-handle".into());
    }
    if n_value_after_drop > 0 {
        classes.push("outcome:value-awaited-after-drop".into());
    }
    if n_reraised > 0 {
        classes.push("outcome:panic-re-raised".into());
    }
    if n_live > 0 {
        classes.push("outcome:resolved-on-live-pool".into());
    }
    if queued_at_drop > 0 {
        classes.push("state:tasks-queued-at-drop-never-ran".into());
    }
    if sh.recs.iter().any(|r| r.spawn_phase.load(SeqCst) == 2) {
        classes.push("state:spawn-overlapped-drop".into());
    }
    if sh.recs.iter().any(|r| r.spawn_phase.load(SeqCst) == 3 && r.runs.load(SeqCst) == 0) {
        classes.push("state:spawned-after-shutdown-never-ran".into());
    }
    {
        let hits = sh.race_hits.lock().unwrap();
        if hits.contains(&"ensure/before-handle-lock") && hits.contains(&"shutdown/flag-stored") {
            let pos_lock = hits.iter().position(|p| *p == "ensure/before-handle-lock").unwrap_or(0);
            let pos_flag = hits.iter().position(|p| *p == "shutdown/flag-stored").unwrap_or(0);
            let pos_load = hits.iter().position(|p| *p == "ensure/after-shutdown-load").unwrap_or(0);
            if pos_load < pos_flag && pos_flag < pos_lock {
                classes.push("race:shutdown-between-flag-load-and-handle-lock".into());
            }
        }
        if hits.contains(&"spawn/after-push") && !hits.contains(&"ensure/after-shutdown-load") {
            classes.push("race:spawn-saw-shutdown-flag".into());
        }
    }

    // non-trivial: >= 2 spawning threads on >= 2 processors and a pool drop while handles are outstanding
    let spawning: Vec<&RScript> = res.scripts.iter().filter(|s| s.pre.iter().any(|o| matches!(o, ROp::Spawn { .. }))).collect();
    let mut procs_used: Vec<i64> = Vec::new();
    for s in &spawning {
        let mut p = s.proc;
        for o in &s.pre {
            match o {
                ROp::Pin(q) => p = *q,
                ROp::Spawn { .. } => {
                    if !procs_used.contains(&p) {
                        procs_used.push(p);
                    }
                }
                ROp::CloneScheduler => {}
            }
        }
    }
    let outstanding = res.scripts.iter().any(|s| s.pre.iter().any(|o| matches!(o, ROp::Spawn { kind, wait: 2, .. } if *kind < 2)));
    reply.nontrivial = spawning.len() >= 2 && procs_used.len() >= 2 && outstanding;
    classes.push(format!("spawner-processors:{}", procs_used.len().min(4)));
    if outstanding {
        classes.push("drop:handles-outstanding".into());
    }

    reply.classes = classes;
    if let Some((sig, msg)) = failures.into_iter().next() {
        reply.status = "fail".into();
        reply.sig = sig;
        reply.msg = msg;
    }
    reply
}

fn is_nest(res: &Resolved, id: usize) -> bool {
    fn find(t: &RTask, id: usize) -> Option<bool> {
        if t.id == id {
            return Some(matches!(t.kind, RKind::Nest(_)));
        }
        if let RKind::Nest(ch) = &t.kind {
            for (_, c) in ch {
                if let Some(r) = find(c, id) {
                    return Some(r);
                }
            }
        }
        None
    }
    for s in &res.scripts {
        for o in s.pre.iter().chain(s.post.iter()) {
            if let ROp::Spawn { task, .. } = o {
                if let Some(r) = find(task, id) {
                    return r;
                }
            }
        }
    }
    false
}

/// True if a thread of the running case (spawner, coordinator, pool worker) is runnable.
fn case_thread_runnable() -> bool {
    let Ok(rd) = std::fs::read_dir("/proc/self/task") else { return false };
    for e in rd.flatten() {
        let Ok(stat) = std::fs::read_to_string(e.path().join("stat")) else { continue };
        // pid (comm) state ...
        let (Some(open), Some(close)) = (stat.find('('), stat.rfind(')')) else { continue };
        let comm = &stat[open + 1..close];
        if !(comm.starts_with("c14h") || comm.starts_with("c14c") || comm.starts_with(POOL_NAME)) {
            continue;
        }
        if stat[close + 1..].trim_start().starts_with('R') {
            return true;
        }
    }
    false
}

/// Describes where every harness thread is, for a case that did not finish in time.
fn hang_reply() -> WReply {
    let Some(sh) = CURRENT.lock().unwrap().clone() else {
        return WReply { status: "error".into(), msg: "deadline passed outside a case".into(), ..WReply::default() };
    };
    let mut lines = Vec::new();
    let (mut in_spawn, mut in_drop, mut in_forget) = (false, false, false);
    let mut awaits: Vec<usize> = Vec::new();
    let n = sh.status.len() - 1;
    for (i, st) in sh.status.iter().enumerate() {
        let (code, arg, gate) = (st.code.load(SeqCst), st.arg.load(SeqCst) as usize, st.at_gate.load(SeqCst));
        let who = if i == n { "coordinator".to_string() } else { format!("thread {i}") };
        let what = match code {
            ST_SPAWN if gate => format!("held at a yield point inside spawn of task {arg}"),
            ST_DROP if gate => "held at a yield point inside drop(pool)".to_string(),
            ST_SPAWN => {
                in_spawn = true;
                format!("inside spawn of task {arg}")
            }
            ST_AWAIT => {
                awaits.push(arg);
                format!("inside block_on(handle of task {arg}) [spawn phase {}, ran {} times]", sh.recs[arg].spawn_phase.load(SeqCst), sh.recs[arg].runs.load(SeqCst))
            }
            ST_DROP => {
                in_drop = true;
                "inside drop(pool)".to_string()
            }
            ST_FORGET_WAIT => {
                in_forget = true;
                format!("waiting for fire-and-forget task {arg} to run on the live pool")
            }
            ST_BARRIER => format!("at harness barrier {arg}"),
            ST_DONE => "finished".to_string(),
            _ => "in harness code".to_string(),
        };
        lines.push(format!("{who}: {what}"));
    }
    let drop_started = sh.drop_started.load(SeqCst);
    let drop_done = sh.drop_done.load(SeqCst);
    let sig = if in_spawn {
        "C14/spawn/never-returns/hang".to_string()
    } else if in_drop {
        "C14/drop-pool/never-returns/hang".to_string()
    } else if !awaits.is_empty() {
        // name the most specific situation among the stuck awaits, in a fixed priority
        let phases: Vec<u8> = awaits.iter().map(|id| sh.recs[*id].spawn_phase.load(SeqCst)).collect();
        if !drop_started {
            "C14/await/live-pool/handle-never-resolves/hang".to_string()
        } else if phases.contains(&3) {
            "C14/await/spawned-after-shutdown/handle-never-resolves/hang".to_string()
        } else if phases.contains(&2) {
            "C14/await/spawned-during-shutdown/handle-never-resolves/hang".to_string()
        } else {
            "C14/await/queued-at-shutdown/handle-never-resolves/hang".to_string()
        }
    } else if in_forget {
        "C14/forget-task/live-pool/never-ran/hang".to_string()
    } else {
        return WReply { status: "stall".into(), msg: format!("deadline passed with no thread inside the library: {}", lines.join("; ")), ..WReply::default() };
    };
    WReply { status: "hang".into(), sig, msg: format!("no answer before the deadline (drop started: {drop_started}, drop returned: {drop_done}); {}", lines.join("; ")), ..WReply::default() }
}

fn worker_main() -> ! {
    std::panic::set_hook(Box::new(|_| {}));
    vicinal::__verif::install_point_hook(Some(on_point));
    vicinal::__verif::install(Some(vicinal::__verif::Hooks { atomic: sync_atomic, fence: sync_fence, spin: sync_spin, mutex_lock: sync_mutex_lock, mutex_unlock: sync_mutex_unlock }));
    serve(|line| {
        let req: WRequest = match serde_json::from_str(line) {
            Ok(r) => r,
            Err(e) => return serde_json::to_string(&WReply { status: "error".into(), msg: format!("bad request: {e}"), ..WReply::default() }).expect("ser"),
        };
        let (tx, rx) = channel();
        let case = req.case;
        thread::Builder::new()
            .name("c14coord".into())
            .spawn(move || {
                let r = catch_unwind(AssertUnwindSafe(|| run_case(&case)));
                let reply = r.unwrap_or_else(|p| WReply { status: "error".into(), msg: format!("harness panicked: {}", payload_message(&*p)), ..WReply::default() });
                let _ = tx.send(reply);
            })
            .expect("thread spawn (infrastructure)");
        // The deadline is counted in 50 ms wake-ups of this thread rather than in wall time, and
        // a case is only declared hung when none of its threads is runnable (state R) in five
        // consecutive samples: on an overloaded machine the case's threads are starved together
        // with this one. A case whose threads keep running (a spinning worker) is cut off at four
        // times the deadline.
        let limit = req.deadline_ms / 50;
        let (mut ticks, mut quiet) = (0u64, 0u32);
        let reply = loop {
            match rx.recv_timeout(Duration::from_millis(50)) {
                Ok(r) => break r,
                Err(std::sync::mpsc::RecvTimeoutError::Timeout) => ticks += 1,
                Err(std::sync::mpsc::RecvTimeoutError::Disconnected) => break WReply { status: "error".into(), msg: "coordinator vanished".into(), ..WReply::default() },
            }
            if ticks >= limit {
                quiet = if case_thread_runnable() { 0 } else { quiet + 1 };
                if quiet >= 5 || ticks >= limit * 4 {
                    break hang_reply();
                }
            }
        };
        serde_json::to_string(&reply).expect("ser")
    })
}

// ------------------------------------------------------------------------------------------------
// parent side
// ------------------------------------------------------------------------------------------------

struct Driver {
    worker: Option<Worker>,
    infra: Vec<String>,
    /// cases that timed out once and not again in fresh workers
    unreproduced: u64,
    hang_evals: u32,
    failed_once: bool,
    cases_run: u64,
}

const DEADLINE_MS: u64 = 5000;
const SHRINK_DEADLINE_MS: u64 = 2000;

impl Driver {
    fn call(&mut self, case: &Case, deadline_ms: u64) -> Result<WReply, String> {
        let req = serde_json::to_string(&WRequest { deadline_ms, case: case.clone() }).expect("serialise");
        if self.cases_run % 1000 == 999 {
            // a fresh process now and then keeps per-process state (thread ids, fake hardware) small
            self.worker = None;
        }
        let w = self.worker.get_or_insert_with(|| Worker::spawn("case"));
        self.cases_run += 1;
        let reply = match w.call(&req, Duration::from_millis(deadline_ms * 6 + 20_000)) {
            Reply::Line(l) => serde_json::from_str::<WReply>(&l).map_err(|e| format!("bad reply {l}: {e}"))?,
            Reply::Timeout => WReply { status: "hang".into(), sig: "C14/worker/no-answer/hang".into(), msg: "the worker process did not answer at all".into(), ..WReply::default() },
            Reply::Died(s) => return Err(s),
        };
        if reply.status == "hang" || reply.status == "stall" || reply.status == "error" {
            // threads of that worker never come back
            self.worker = None;
        }
        Ok(reply)
    }
}

fn check(case: &Case, ctx: &mut Ctx, drv: &mut Driver) -> Verdict {
    // After the first failure of a section proptest is shrinking. Every candidate that hangs
    // costs a whole deadline, so the number of hanging candidates is bounded: beyond it no
    // further candidate is tried (it counts as "not a simpler failure"), which ends shrinking
    // with the smallest failing case found so far. Verdicts are never produced this way.
    let shrinking = drv.failed_once;
    if shrinking && drv.hang_evals >= 10 {
        return Ok(());
    }
    let deadline = if shrinking { SHRINK_DEADLINE_MS } else { DEADLINE_MS };
    let mut reply = match drv.call(case, deadline) {
        Ok(r) => r,
        Err(e) => {
            drv.infra.push(e);
            return Ok(());
        }
    };
    if reply.status == "hang" || reply.status == "stall" || reply.status == "error" {
        drv.hang_evals += 1;
        if !shrinking {
            // must reproduce in a fresh worker
            let mut again = None;
            for _ in 0..2 {
                drv.worker = None;
                match drv.call(case, deadline) {
                    Ok(r) if r.status == "hang" || r.status == "stall" || r.status == "error" => {
                        again = Some(r);
                        break;
                    }
                    Ok(r) => reply = r,
                    Err(e) => {
                        drv.infra.push(e);
                        return Ok(());
                    }
                }
            }
            match again {
                Some(r) => reply = r,
                None => {
                    drv.unreproduced += 1;
                    ctx.classify("timeout-not-reproduced");
                }
            }
        }
    }
    if std::env::var_os("C14_TRACE").is_some() {
        eprintln!("C14_TRACE {reply:?}");
    }
    for c in &reply.classes {
        ctx.classify(c);
    }
    if reply.nontrivial {
        ctx.nontrivial();
    }
    match reply.status.as_str() {
        "ok" => Ok(()),
        "stall" if shrinking => Ok(()),
        "fail" | "hang" => {
            drv.failed_once = true;
            Err(Failure::new(reply.sig, reply.msg))
        }
        _ => {
            drv.infra.push(format!("{}: {}", reply.status, reply.msg));
            Ok(())
        }
    }
}

fn main() {
    if worker_role().is_some() {
        worker_main();
    }
    let mut h = Harness::from_args("C14");
    let mut drv = Driver { worker: None, infra: Vec::new(), unreproduced: 0, hang_evals: 0, failed_once: false, cases_run: 0 };
    let cases = h.cases(8_000, 200_000);
    h.section(
        "scripts",
        "generated hardware (fake 2..8 processors | the real 16) x workers per processor 1..3 x 1..4 spawning threads (pinned, re-pinning, cloning the scheduler) each with 0..6 operations while the pool lives and 0..3 after it was dropped: spawn / spawn_urgent / spawn_and_forget / spawn_urgent_and_forget of tasks that return, panic, block until shutdown was signalled or spawn more (depth <= 2), awaited now / at the end of the phase / after the drop; pool dropped after the first phase, at a generated moment during it, or in a generated order over the H6 yield points against one spawn call; executed on real threads in a child process under a 4 s deadline (timeouts must reproduce in a fresh process); non-trivial = >= 2 spawning threads on >= 2 processors and a pool drop while handles are outstanding; distinct by serialised case",
        cases,
        case_strategy(),
        |case, ctx| check(case, ctx, &mut drv),
    );
    drv.failed_once = false;
    drv.hang_evals = 0;
    h.enumerate(
        "shutdown-window",
        "complete enumeration: every order (792 merges) of the spawner's seven yield points (spawn entry, after the shutdown-flag load, before and after the per-processor state get_or_init, before the handle-list lock, after ensure_workers_spawned, after the queue push) against the dropper's five (drop called, flag stored, shutdown signalled to existing states, workers joined, drop returned) x spawn kind (spawn, spawn_and_forget) x first use of the processor or workers already running x scheduler kept or dropped before awaiting; adjacent points bracket one action, so an order sequences two actions of the two threads or leaves them concurrent; a second thread on another processor holds a handle across the drop and the racing thread spawns once more through its outlived scheduler; every case is non-trivial by the stated rule",
        race_cases(),
        |case, ctx| check(case, ctx, &mut drv),
    );
    drv.failed_once = false;
    drv.hang_evals = 0;
    h.enumerate(
        "quota-probe",
        "fixed probe of an open finding, outside the random generator: fake hardware with 4 processors under a processor-time quota of 1.0 and 2.0 (hardware.processors() then holds 1 resp. 2 of the 4), one spawner pinned to each of the 4 processors in turn, three spawn + await on a live pool, pool dropped afterwards; same oracle, a task seen on another processor than its spawner's is reported as C14/quota/worker-not-pinned-outside-quota-limited-set when the spawner's processor is outside hardware.processors(); single-threaded cases, none is non-trivial by the stated rule",
        quota_cases(),
        |case, ctx| {
            // a known-finding hit must not switch the driver into its shrinking mode
            let r = check(case, ctx, &mut drv);
            drv.failed_once = false;
            r
        },
    );
    h.note("timeouts_not_reproduced", serde_json::json!(drv.unreproduced));
    h.note("worker_cases_run", serde_json::json!(drv.cases_run));
    drop(drv.worker.take());
    if !drv.infra.is_empty() {
        eprintln!("C14 worker problems ({}): {:?}", drv.infra.len(), &drv.infra[..drv.infra.len().min(3)]);
        std::process::exit(2);
    }
    h.finish()
}
