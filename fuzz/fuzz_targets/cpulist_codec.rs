#![no_main]
//! C11 (id-list codec): coverage-guided bytes -> `cpulist::parse`. Any input is `Ok` or `Err`,
//! never a panic; an accepted list is strictly ascending, and `emit` of it parses back to the
//! same list. Inputs whose ranges would expand to more than 2^20 items are not parsed (the codec
//! materialises every item; that is an allocation question, not a correctness one).

use libfuzzer_sys::fuzz_target;

fn fail(what: &str, input: &str) -> ! {
    eprintln!("ORACLE-FAILURE C11/cpulist/fuzz/{what} :: input {input:?}");
    std::process::abort();
}

/// Upper bound of the number of items the text denotes, judged from the text alone.
fn too_big(s: &str) -> bool {
    let mut total: u128 = 0;
    for part in s.split(',') {
        let body = part.split(':').next().unwrap_or("");
        let mut ends = body.splitn(2, '-');
        let a = ends.next().unwrap_or("").trim();
        let b = ends.next().map(str::trim);
        if let (Ok(a), Some(Ok(b))) = (a.parse::<u128>(), b.map(str::parse::<u128>)) {
            if b >= a {
                total += b - a + 1;
            }
        } else {
            total += 1;
        }
    }
    total > (1 << 20)
}

fuzz_target!(|data: &[u8]| {
    let Ok(s) = std::str::from_utf8(data) else { return };
    if s.len() > 4096 || too_big(s) {
        return;
    }
    if let Ok(items) = cpulist::parse(s) {
        if !items.windows(2).all(|w| w[0] < w[1]) {
            fail("not-strictly-ascending", s);
        }
        let text = cpulist::emit(items.iter().copied());
        match cpulist::parse(&text) {
            Ok(again) if again == items => {}
            _ => fail("emit-does-not-parse-back", s),
        }
    }
});
