#![no_main]
//! Coverage-guided variant of the C01/C02 history check, built with AddressSanitizer: the same
//! interpreter and oracles as `pools_hist`, driven by libFuzzer bytes. ASan turns "object placed
//! in freed or foreign memory" into an immediate failure even when no canary is damaged.

use libfuzzer_sys::fuzz_target;
use p_pools::interp::{case_from_bytes, run_case};

static HOOK: std::sync::Once = std::sync::Once::new();

fuzz_target!(|data: &[u8]| {
    // libfuzzer-sys aborts on every panic; panics the interpreter expects and catches (a pool
    // with MustNotDropContents dropped non-empty) must not end the campaign. Real failures
    // abort explicitly below.
    HOOK.call_once(|| std::panic::set_hook(Box::new(|_| {})));
    let case = case_from_bytes(data);
    for prop in ["C01", "C02"] {
        let mut ctx = vcommon::Ctx::default();
        if let Err(f) = run_case(&case, &mut ctx, prop) {
            // the dispatcher converts the saved input back into a JSON replay of `pools_hist`
            eprintln!("ORACLE-FAILURE {} :: {}", f.signature, f.message);
            std::process::abort();
        }
    }
});
