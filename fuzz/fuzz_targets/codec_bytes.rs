#![no_main]
//! C19 (stored-object codec): coverage-guided bytes. (1) any byte string handed to `decompress`
//! is `Ok` or `Err`, never a panic; what it accepts re-compresses to something that decompresses
//! to the same bytes. (2) the same bytes taken as a payload: `decompress(compress(x)) == x`, also
//! right after a failed decode on the same thread (the decoder is a per-thread object).

use libfuzzer_sys::fuzz_target;

fn fail(what: &str, n: usize) -> ! {
    eprintln!("ORACLE-FAILURE C19/codec/fuzz/{what} :: input of {n} bytes");
    std::process::abort();
}

fuzz_target!(|data: &[u8]| {
    if data.len() > 1 << 16 {
        return;
    }
    if let Ok(plain) = cbh_codec::decompress(data) {
        if plain.len() > 64 << 20 {
            fail("accepted-input-expands-beyond-64MiB", data.len());
        }
        match cbh_codec::decompress(&cbh_codec::compress(&plain)) {
            Ok(again) if again == plain => {}
            _ => fail("accepted-object-does-not-round-trip", data.len()),
        }
    }
    match cbh_codec::decompress(&cbh_codec::compress(data)) {
        Ok(back) if back == data => {}
        _ => fail("round-trip-fails", data.len()),
    }
});
