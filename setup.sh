#!/bin/sh
# Offline warm build of the claimed harness binaries (hooks on). Checks rebuild incrementally from
# /repo's working tree on every run; this only pays the cold-build cost once.
set -e
cd "$(dirname "$0")"
export CARGO_NET_OFFLINE=true
export CARGO_TARGET_DIR="$(pwd)/.target"
export RUSTFLAGS="--cfg folo_verif"
python3 - <<'PY' > .setup_targets.txt
import json, os
claimed = open('tools/checks/claimed.txt').read().split()
seen = []
for c in claimed:
    spec = json.load(open('tools/checks/%s.json' % c))
    for s in spec['steps']:
        if s.get('kind', 'harness') == 'harness':
            t = (s['package'], s['bin'])
            if t not in seen:
                seen.append(t)
for p, b in seen:
    print(p, b)
PY
cd harness
while read -r pkg bin; do
  cargo build --release -p "$pkg" --bin "$bin"
done < ../.setup_targets.txt
cargo check -p p_bounds --bins --keep-going >/dev/null 2>&1 || true   # compile-time probes of C03 (half of them must fail to compile)
rm -f ../.setup_targets.txt
