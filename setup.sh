#!/bin/sh
# Offline warm build of the harness workspace (hooks on).  Checks rebuild incrementally from
# /repo's working tree on every run; this only pays the cold-build cost once.
set -e
cd "$(dirname "$0")/harness"
export CARGO_NET_OFFLINE=true
export CARGO_TARGET_DIR="$(cd .. && pwd)/.target"
export RUSTFLAGS="--cfg folo_verif"
cargo build --release --workspace --bins
