#!/usr/bin/env python3
"""usage: tools/seed_meta.py <name> <property> <breaks> <needs> <detected_by>  -> writes seeded/<name>/meta.json"""
import json, sys
name, prop, breaks, needs, det = sys.argv[1:6]
json.dump({"property": prop, "breaks": breaks, "needs": needs, "detected_by": det,
 "produced_by": "fresh sub-agent given only the property text (and, for second-round ids, a one-line description of the first-round change to avoid) and its own scratch worktree /tmp/seed-%s" % name,
 "confirmed": "tools/seed_confirm.sh: demo passes without the patch, fails with it, the touched crate's own suite passes with it (logs beside this file); check run in a scratch copy via tools/mutant.sh"},
 open('/verif/seeded/%s/meta.json' % name, 'w'), indent=1)
