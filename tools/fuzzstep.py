"""Thorough-tier step: coverage-guided campaign (cargo-fuzz / libFuzzer + ASan) on a target whose
oracle lives inside the target.  Crashes are converted into JSON replays of the proptest driver."""
import glob, json, os, re, shutil, subprocess, time

def run(prop, step, tier, seed, env, work, ROOT):
    target = step["target"]
    fuzz_dir = os.path.join(ROOT, "fuzz")
    corpus = os.path.join(ROOT, ".work", "fuzz-corpus", target)
    artifacts = os.path.join(fuzz_dir, "artifacts", target)
    os.makedirs(corpus, exist_ok=True)
    shutil.rmtree(artifacts, ignore_errors=True)
    e = dict(env)
    e.pop("CARGO_TARGET_DIR", None)
    e["RUSTFLAGS"] = "--cfg folo_verif"
    harness = os.path.join(ROOT, "harness")
    b = subprocess.run(["cargo", "+nightly", "fuzz", "build", "--fuzz-dir", fuzz_dir, target], cwd=harness, env=e, stdout=subprocess.PIPE, stderr=subprocess.STDOUT, text=True)
    if b.returncode != 0:
        print(b.stdout[-3000:])
        return {"code": 2}
    # committed seed inputs
    for f in glob.glob(os.path.join(ROOT, "corpus", target, "*")):
        shutil.copy(f, corpus)
    secs = step.get("seconds", 300)
    jobs = step.get("jobs", 8)
    t0 = time.time()
    cmd = ["cargo", "+nightly", "fuzz", "run", "--fuzz-dir", fuzz_dir, target, corpus, "--",
           "-max_total_time=%d" % secs, "-seed=%d" % (seed % 2**31 or 1), "-len_control=0", "-max_len=2400",
           "-detect_leaks=0", "-print_final_stats=1", "-jobs=%d" % jobs, "-workers=%d" % jobs]
    r = subprocess.run(cmd, cwd=harness, env=e, stdout=subprocess.PIPE, stderr=subprocess.STDOUT, text=True)
    execs = 0
    for log in glob.glob(os.path.join(harness, "fuzz-*.log")):
        txt = open(log, errors="replace").read()
        m = re.findall(r"stat::number_of_executed_units:\s*(\d+)", txt)
        execs += sum(int(x) for x in m)
        os.remove(log)
    lines = []
    arts = sorted(glob.glob(os.path.join(artifacts, "*")))
    conv = os.path.join(env["CARGO_TARGET_DIR"], "release", "fuzz2case")
    subprocess.run(["cargo", "build", "--release", "-p", "p_pools", "--bin", "fuzz2case"], cwd=harness, env=env, stdout=subprocess.PIPE, stderr=subprocess.STDOUT)
    for a in arts[:5]:
        out = os.path.join(ROOT, "violations", prop, "fuzz-%s.json" % os.path.basename(a)[:24])
        os.makedirs(os.path.dirname(out), exist_ok=True)
        c = subprocess.run([conv, a, prop], stdout=subprocess.PIPE, text=True)
        open(out, "w").write(c.stdout)
        lines.append("VIOLATION property=%s replay=%s signature=%s/fuzz/%s :: libFuzzer/ASan target failed on a generated history (input %s)" % (prop, out, prop, target, a))
    sec = {"evaluations": execs, "nontrivial_evaluations": 0, "classes": {"corpus-files": len(os.listdir(corpus))}, "exhaustive": False,
           "budget_exhausted": True, "excluded_known": 0, "wall_s": round(time.time() - t0, 1),
           "rule": "coverage-guided campaign (libFuzzer, AddressSanitizer build, %d jobs x %ds) on fuzz target %s: bytes decoded into the same history case as the proptest driver, same interpreter and oracles in-target; evaluations = executions reported by libFuzzer" % (jobs, secs, target)}
    return {"lines": lines, "code": 1 if arts else 0, "extra": {"sections": {"fuzz:" + target: sec}}}
