"""Thorough-tier step: coverage-guided campaign (cargo-fuzz / libFuzzer + ASan) on a target whose
oracle lives inside the target.  Crashes are converted into JSON replays of the proptest driver."""
import glob, json, os, re, shutil, subprocess, time

def run(prop, step, tier, seed, env, work, ROOT):
    target = step["target"]
    fuzz_dir = os.path.join(ROOT, "fuzz")
    corpus = os.path.join(ROOT, ".work", "fuzz-corpus", target)
    artifacts = os.path.join(fuzz_dir, "artifacts", target)
    os.makedirs(corpus, exist_ok=True)
    shutil.rmtree(artifacts, ignore_errors=True)
    e = dict(env)
    e.pop("CARGO_TARGET_DIR", None)
    e["RUSTFLAGS"] = "--cfg folo_verif"
    harness = os.path.join(ROOT, "harness")
    b = subprocess.run(["cargo", "+nightly", "fuzz", "build", "--fuzz-dir", fuzz_dir, target], cwd=harness, env=e, stdout=subprocess.PIPE, stderr=subprocess.STDOUT, text=True)
    if b.returncode != 0:
        print(b.stdout[-3000:])
        return {"code": 2}
    # committed seed inputs
    for f in glob.glob(os.path.join(ROOT, "corpus", target, "*")):
        shutil.copy(f, corpus)
    secs = step.get("seconds", 300)
    jobs = step.get("jobs", 8)
    t0 = time.time()
    cmd = ["cargo", "+nightly", "fuzz", "run", "--fuzz-dir", fuzz_dir, target, corpus, "--",
           "-max_total_time=%d" % secs, "-seed=%d" % (seed % 2**31 or 1), "-len_control=0", "-max_len=2400",
           "-detect_leaks=0", "-print_final_stats=1", "-jobs=%d" % jobs, "-workers=%d" % jobs]
    r = subprocess.run(cmd, cwd=harness, env=e, stdout=subprocess.PIPE, stderr=subprocess.STDOUT, text=True)
    execs = 0
    for log in glob.glob(os.path.join(harness, "fuzz-*.log")):
        txt = open(log, errors="replace").read()
        m = re.findall(r"stat::number_of_executed_units:\s*(\d+)", txt)
        execs += sum(int(x) for x in m)
        os.remove(log)
    lines = []
    # only crashes (an aborting oracle, a panic, a sanitizer report) are failures; libFuzzer's
    # slow-unit-* / timeout-* / oom-* files are about speed and memory under load: inconclusive
    arts = sorted(glob.glob(os.path.join(artifacts, "crash-*")))
    other_arts = [a for a in glob.glob(os.path.join(artifacts, "*")) if a not in arts]
    pools = target == "pools_history"
    if pools:
        conv = os.path.join(env["CARGO_TARGET_DIR"], "release", "fuzz2case")
        subprocess.run(["cargo", "build", "--release", "-p", "p_pools", "--bin", "fuzz2case"], cwd=harness, env=env, stdout=subprocess.PIPE, stderr=subprocess.STDOUT)
    for a in arts[:5]:
        out = os.path.join(ROOT, "violations", prop, "fuzz-%s.json" % os.path.basename(a)[:24])
        os.makedirs(os.path.dirname(out), exist_ok=True)
        if pools:
            # the saved input becomes a JSON replay of the proptest driver (same interpreter)
            c = subprocess.run([conv, a, prop], stdout=subprocess.PIPE, text=True)
            open(out, "w").write(c.stdout)
        else:
            # byte-level targets: the replay is the input itself, re-run through the target
            json.dump({"property": prop, "fuzz_target": target, "input_hex": open(a, "rb").read().hex()}, open(out, "w"))
        lines.append("VIOLATION property=%s replay=%s signature=%s/fuzz/%s :: libFuzzer/ASan target failed on a generated history (input %s)" % (prop, out, prop, target, a))
    sec = {"evaluations": execs, "nontrivial_evaluations": 0, "classes": {"corpus-files": len(os.listdir(corpus)), "slow/timeout/oom-artifacts(inconclusive)": len(other_arts)}, "exhaustive": False,
           "budget_exhausted": True, "excluded_known": 0, "wall_s": round(time.time() - t0, 1),
           "rule": "coverage-guided campaign (libFuzzer, AddressSanitizer build, %d jobs x %ds) on fuzz target %s: bytes decoded into the same history case as the proptest driver, same interpreter and oracles in-target; evaluations = executions reported by libFuzzer" % (jobs, secs, target)}
    return {"lines": lines, "code": 1 if arts else 0, "extra": {"sections": {"fuzz:" + target: sec}}}


def replay(prop, path, env, ROOT):
    """Re-runs one saved input of a byte-level fuzz target (replay file written by run())."""
    j = json.load(open(path))
    fuzz_dir = os.path.join(ROOT, "fuzz")
    harness = os.path.join(ROOT, "harness")
    e = dict(env)
    e.pop("CARGO_TARGET_DIR", None)
    e["RUSTFLAGS"] = "--cfg folo_verif"
    tmp = os.path.join(ROOT, ".work", "fuzz-replay-input")
    os.makedirs(os.path.dirname(tmp), exist_ok=True)
    open(tmp, "wb").write(bytes.fromhex(j["input_hex"]))
    r = subprocess.run(["cargo", "+nightly", "fuzz", "run", "--fuzz-dir", fuzz_dir, j["fuzz_target"], tmp, "--", "-runs=1"], cwd=harness, env=e, stdout=subprocess.PIPE, stderr=subprocess.STDOUT, text=True)
    if r.returncode == 0:
        return {"lines": ["REPLAY-PASS fuzz_target=%s" % j["fuzz_target"]], "code": 0}
    m = re.search(r"ORACLE-FAILURE (\S+) :: (.*)", r.stdout)
    sig = m.group(1) if m else "%s/fuzz/%s/crash" % (prop, j["fuzz_target"])
    return {"lines": ["VIOLATION property=%s replay=%s signature=%s :: %s" % (prop, path, sig, m.group(2) if m else "the fuzz target crashed on this input")], "code": 1}
