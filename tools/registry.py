"""Which harness binaries decide which property (single source of truth for ./check and MANIFEST.json)."""

HOOK_COMMITS = []
NOT_APPLICABLE = {}

CHECKS = {
    "C09": {
        "level": "exploration",
        "steps": [{"package": "p_many_cpus", "bin": "c09"}],
        "technique": "property-based testing (proptest): generated topologies x requests, validity + brute-force existence oracle",
        "design_ref": "DESIGN.md §11",
        "level_text": "Generated-input search: 240k (quick) / 4M (thorough) generated topology x request cases, each repeated for the implementation's internal randomness, judged by an independent candidate computation, a validity predicate on the returned set and brute-force satisfiability when nothing is returned. Finds counterexamples, does not prove absence.",
        "level_note": "Fake hardware (many_cpus test-util) stands for arbitrary topologies; rand::rng() choices inside the library are sampled by repetition.",
        "assumptions": [
            "fake hardware platform (many_cpus test-util) stands for every topology; the selection code is platform independent",
            "the implementation's internal rand::rng() choices are sampled by repetition, not enumerated",
        ],
    },
}
