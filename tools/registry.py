"""Which harness binaries decide which property: one JSON file per property under tools/checks/
(single source of truth for ./check and MANIFEST.json)."""
import glob, json, os

_D = os.path.join(os.path.dirname(os.path.abspath(__file__)), "checks")
CHECKS = {}
for _f in sorted(glob.glob(os.path.join(_D, "C*.json"))):
    CHECKS[os.path.basename(_f)[:-5]] = json.load(open(_f))

_H = os.path.join(_D, "hooks.json")
HOOK_COMMITS = json.load(open(_H)) if os.path.exists(_H) else []
_N = os.path.join(_D, "not_applicable.json")
NOT_APPLICABLE = json.load(open(_N)) if os.path.exists(_N) else {}
