"""C03 step: compile-time probes of safe-program soundness (harness/p_bounds/src/bin/*.rs).
reject_* programs (a !Send payload ends up on another thread through safe code only) must be
rejected by the compiler with a Send-bound error; accept_* programs (the same programs over a Send
payload) must compile - they prove the probes are rejected for the payload class, not for a typo or
an API change. A reject_* program that compiles is a violation; an accept_* program that does not,
or a reject_* program rejected for an unrelated reason, makes the step inconclusive (exit 2)."""
import glob, json, os, shutil, subprocess, time

def run(prop, step, tier, seed, env, work, ROOT, only=None):
    harness = os.path.join(ROOT, "harness")
    bins = sorted(os.path.basename(f)[:-3] for f in glob.glob(os.path.join(harness, "p_bounds", "src", "bin", "*.rs")))
    if only:
        bins = [b for b in bins if b == only]
    t0 = time.time()
    cmd = ["cargo", "check", "-p", "p_bounds", "--keep-going", "--message-format=json"]
    cmd += sum((["--bin", b] for b in bins), []) if only else ["--bins"]
    r = subprocess.run(cmd, cwd=harness, env=env, stdout=subprocess.PIPE, stderr=subprocess.PIPE, text=True)
    errors = {b: [] for b in bins}
    built = set()
    for line in r.stdout.splitlines():
        try:
            m = json.loads(line)
        except ValueError:
            continue
        name = m.get("target", {}).get("name")
        if m.get("reason") == "compiler-message" and name in errors:
            msg = m["message"]
            if msg.get("level") == "error" and not msg.get("message", "").startswith("aborting due to"):
                errors[name].append(((msg.get("code") or {}).get("code"), msg.get("message", "")))
        if m.get("reason") == "compiler-artifact" and name in errors:
            built.add(name)
    lines, infra, classes, samples = [], [], {}, []
    def cl(k):
        classes[k] = classes.get(k, 0) + 1
    for b in bins:
        errs = errors[b]
        send_err = [e for e in errs if e[0] == "E0277" and ("cannot be sent between threads safely" in e[1] or "Send" in e[1])]
        other = [e for e in errs if e not in send_err]
        if b.startswith("reject_"):
            if not errs:
                if b in built:
                    path = os.path.join(harness, "p_bounds", "src", "bin", b + ".rs")
                    out = os.path.join(ROOT, "violations", prop, b + ".rs")
                    os.makedirs(os.path.dirname(out), exist_ok=True)
                    shutil.copy(path, out)
                    lines.append("VIOLATION property=%s replay=%s signature=%s/safe-program/%s/compiles :: a program in safe Rust (#![forbid(unsafe_code)]) that moves a handle to a !Send payload (Rc<u8>) in a thread-safe pool to another thread, where the payload is destroyed, is accepted by the compiler" % (prop, out, prop, b))
                    cl("reject-probe:COMPILES")
                else:
                    infra.append("%s: neither compiled nor rejected (cargo did not reach it)" % b)
            elif other and not send_err:
                infra.append("%s: rejected, but not for a Send bound: %s" % (b, other[:2]))
            else:
                cl("reject-probe:rejected-with-Send-error")
        else:
            if errs:
                infra.append("%s: control program does not compile: %s" % (b, errs[:2]))
            else:
                cl("accept-probe:compiles")
    for b in bins[:2] + bins[-2:]:
        samples.append({"section": "safe-programs", "probe": b, "errors": [e[0] for e in errors[b]]})
    code = 1 if lines else (2 if infra or (r.returncode not in (0, 101)) else 0)
    for i in infra:
        print("PROBE-INCONCLUSIVE property=%s %s" % (prop, i), file=__import__("sys").stderr)
    sec = {"evaluations": len(bins), "nontrivial_evaluations": len([b for b in bins if b.startswith("reject_")]), "classes": classes,
           "exhaustive": True, "budget_exhausted": False, "excluded_known": 0, "wall_s": round(time.time() - t0, 1), "samples": [],
           "rule": "complete table of whole safe programs (#![forbid(unsafe_code)]): thread-safe pool kind {OpaquePool::with_layout, OpaquePool::with_layout_of, PinnedPool, BlindPool} x route to a handle {unique, unique erased, shared, shared erased, clone of shared, erased handle created on another thread and returned} x payload {Rc<u8> = !Send: the program moves the handle - and so the payload's destruction - to another thread and MUST be rejected with a Send-bound error (E0277); Cell<u8> = Send: the same program MUST compile (control)}; judged by `cargo check` of harness/p_bounds against /repo's infinity_pool; non-trivial = the reject programs"}
    return {"lines": lines, "code": code, "extra": {"sections": {"safe-programs": sec}, "samples": samples, "distinct_nontrivial": sec["nontrivial_evaluations"]}}
