#!/bin/sh
# usage: tools/mutant.sh <name> <Cxx> <python-snippet-file|-> [seed]
# Applies a mutation (python script run with cwd = scratch repo) to a scratch copy of /repo and
# runs the scratch copy of /verif's quick check against it. Scratch pair: /var/tmp/mut/<name>.
set -e
NAME=$1; PROP=$2; PATCH=$3; SEED=${4:-20260923}
S=/var/tmp/mut/$NAME
rm -rf "$S"; mkdir -p "$S"
rsync -a --exclude target --exclude .git /repo/ "$S/repo/"
rsync -a --exclude .target --exclude .git --exclude .work --exclude violations /verif/ "$S/verif/"
( cd "$S/repo" && if [ "${PATCH##*.}" = "diff" ]; then patch -p1 -s < "$PATCH"; else python3 "$PATCH"; fi )
cd "$S/verif"
T0=$(date +%s)
set +e
VERIF_TARGET_DIR=/var/tmp/mut/tgt ./check "$PROP" --tier quick --seed "$SEED" > "$S/out.txt" 2> "$S/err.txt"
RC=$?
set -e
T1=$(date +%s)
echo "mutant=$NAME property=$PROP exit=$RC seconds=$((T1-T0))"
grep -m3 "^VIOLATION" "$S/out.txt" | cut -c1-400 || true
[ $RC -ge 2 ] && tail -5 "$S/err.txt"
mkdir -p /var/tmp/mut/keep
cp -r "$S/verif/violations" "/var/tmp/mut/keep/$NAME" 2>/dev/null || true
rm -rf "$S"
exit 0
