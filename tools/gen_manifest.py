#!/usr/bin/env python3
"""Regenerates /verif/MANIFEST.json from tools/registry.py (single source of truth)."""
import json, os, sys
ROOT = os.path.dirname(os.path.dirname(os.path.abspath(__file__)))
sys.path.insert(0, os.path.join(ROOT, "tools"))
from registry import CHECKS, HOOK_COMMITS, NOT_APPLICABLE  # noqa

props = [json.loads(l)["id"] for l in open(os.path.join(ROOT, "properties.jsonl"))]
# only properties the lead has reviewed are claimed
CLAIMED = set(open(os.path.join(ROOT, "tools", "checks", "claimed.txt")).read().split())
CHECKS = {k: v for k, v in CHECKS.items() if k in CLAIMED}
checks = []
for pid in props:
    if pid not in CHECKS:
        continue
    c = CHECKS[pid]
    checks.append({
        "property_id": pid,
        "quick_cmd": "./check %s --tier quick" % pid,
        "thorough_cmd": "./check %s --tier thorough" % pid,
        "evidence_file": "evidence/%s.json" % pid,
        "replay_cmd_template": "./check %s --replay {path}" % pid,
        "engine": c.get("engine", "E1 history driver (proptest)"),
        "level_claimed": {"category": c["level"], "text": c["level_text"], "design_ref": c.get("design_ref", "")},
        "level_note": c["level_note"],
        "technique": c["technique"],
    })
na = [{"property_id": p, "reason": NOT_APPLICABLE.get(p, "check not built yet in this session; no claim made")} for p in props if p not in CHECKS]
m = {
    "version": 1,
    "setup_cmd": "./setup.sh",
    "hooks": {
        "guard": "cfg(folo_verif)",
        "enable": "RUSTFLAGS='--cfg folo_verif' (set by harness/.cargo/config.toml and by ./check); harness crates depend on /repo/packages/* by relative path so every check rebuilds from /repo's working tree",
        "baseline_off_cmd": "cd /repo && cargo nextest run --workspace --no-fail-fast --test-threads 8 --offline",
        "source_commits": ["%s %s" % (h["commit"], h["purpose"]) for h in HOOK_COMMITS],
        "add_only": True,
    },
    "engines": [
        {"name": "E1 history driver", "path": "harness/vcommon", "serves_properties": sorted(CHECKS), "kind_free_text": "proptest TestRunner wrapper: generated cases/histories, model oracle, shrinking, replay files, known-finding matching, evidence fragments"},
    ],
    "checks": checks,
    "not_applicable": na,
    "notes": "All checks are property-based tests / fuzzing (generated inputs, histories, schedules, fault points against explicit oracles). Exit 2 = infrastructure problem (never a violation).",
}
json.dump(m, open(os.path.join(ROOT, "MANIFEST.json"), "w"), indent=1)
print("claimed:", [c["property_id"] for c in checks])
