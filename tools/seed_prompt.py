#!/usr/bin/env python3
"""usage: tools/seed_prompt.py <Cxx> <name> [avoid-text]  -> prints the prompt for a seeding sub-agent.
The sub-agent gets the property text and its own worktree only (nothing from /verif)."""
import json, sys
pid, name = sys.argv[1], sys.argv[2]
avoid = sys.argv[3] if len(sys.argv) > 3 else ""
p = next(json.loads(l) for l in open('/verif/properties.jsonl') if json.loads(l)['id'] == pid)
files = "\n".join("  - " + f for f in p['anchors']['files'])
print(f"""You are helping to evaluate a verification framework by producing one realistic *seeded defect* in a Rust workspace (folo-rs/folo). You work ONLY inside your own scratch git worktree at /tmp/seed-{name} (a worktree of the repository; never touch /repo or /verif, never read anything under /verif). Everything is offline: always pass --offline to cargo (or set CARGO_NET_OFFLINE=true). Use `CARGO_TARGET_DIR=/tmp/seed-{name}/target` so your build output stays inside your worktree.

The property that your change must break:

  {p['id']} - {p['title']}
  Statement: {p['statement']}
  Quantified over: {p['quantifier']['text']}
  Code the property is anchored in:
{files}

Your task: make ONE small source change to the library code (not tests) in the worktree that
  1. still compiles (the whole crate and its dependents: `cargo check --offline -p <crate>` and the crates that use it),
  2. keeps the existing test suite of every crate you touched green (`cargo test --offline -p <crate>`; run it and confirm - if an existing test fails, pick a different change),
  3. makes the stated property FALSE for some input / history / schedule / fault point,
  4. needs something specific to manifest: a particular interleaving, a crash or fault at a particular point, a multi-step sequence of operations, an unusual input, or two cooperating sites that each look fine alone. Not a change that ordinary use would expose at once. It should look like a plausible refactoring slip, an optimisation, or a "simplification" a maintainer could have merged.
  {('5. Must be a DIFFERENT mechanism/code site than this earlier one (do not repeat it): ' + avoid) if avoid else ''}

Also write a demonstration: a test file or small program (placed under /tmp/seed-{name}/SEEDED/demo/, with a script SEEDED/demo/run.sh that is run with cwd = the worktree root, copies the demo into place if needed, runs it with cargo --offline, cleans up the copied file, and exits 0 iff the property held) that FAILS with your change and PASSES without it. For schedule-dependent defects make the demonstration deterministic if you can (use existing cfg(folo_verif) yield-point hooks if the crate has them - build the demo with RUSTFLAGS='--cfg folo_verif' in that case -, barriers, callbacks in user code such as Clone/Drop/waker vtables to force the order); if it must be probabilistic, make it loop until it reproduces with very high probability within 2 minutes and never fail without the change. Verify both directions yourself (git stash / git apply).

Deliverables, all under /tmp/seed-{name}/SEEDED/ :
  - patch.diff   (output of `git diff` for the library change only, applies with `git apply` at the worktree root; must not include the SEEDED directory or the demo)
  - NOTES.md     (what the change is, why it breaks the property, what it needs in order to manifest, what you ran and the results: suite green with the change, demo fails with / passes without)
  - demo/run.sh + demo sources
Leave the worktree with the patch NOT applied (git checkout -- . for tracked files) and remove your target directory's biggest parts if it exceeds ~6 GB. Do not commit anything. In your final answer give a 5-line summary (file changed, mechanism, what it needs to manifest, results of the three verifications).""")
