#!/bin/sh
# usage: tools/seed_confirm.sh <Cxx> "<crates to test>" [name]
# Confirms a seeded change produced by a sub-agent in /tmp/seed-<Cxx> (demo passes without the
# patch, fails with it; the crates' own suites pass with it), stores it under /verif/seeded/<name>/.
P=$1; CRATES=$2; NAME=${3:-$P}
W=/tmp/seed-$NAME
[ -d "$W" ] || W=/tmp/seed-$P
cd "$W" || exit 2
OUT=/verif/seeded/$NAME
mkdir -p "$OUT"
cp -r SEEDED/patch.diff SEEDED/NOTES.md SEEDED/demo "$OUT"/ 2>/dev/null
git checkout -q -- . 2>/dev/null
echo "== demo WITHOUT patch"; (bash SEEDED/demo/run.sh > "$OUT/demo_without.log" 2>&1; echo "exit=$?" | tee -a "$OUT/demo_without.log")
git apply SEEDED/patch.diff || { echo "patch does not apply"; exit 2; }
echo "== demo WITH patch"; (timeout 900 bash SEEDED/demo/run.sh > "$OUT/demo_with.log" 2>&1; echo "exit=$?" | tee -a "$OUT/demo_with.log")
echo "== suites WITH patch"
for c in $CRATES; do (cargo test -p $c --offline 2>&1 | grep -E "^test result|FAILED|error(\[|:)" | sort | uniq -c | head -8) | tee -a "$OUT/suite_with.log"; done
git diff --stat | tail -3
